#!/bin/bash
# usage: seed_round.sh <worktree> <outdir> <property> <name> <needs...>
# confirms a sub-agent's change (confirm_seed.sh), stores it under seeded/<name>, then runs the quick check of
# the property against it on /repo (applied, checked, reverted).  Prints the outcome.
WT=$1; OUT=$2; PROP=$3; NAME=$4; shift 4; NEEDS="$*"
cd /verif
[ -s "$OUT/patch.diff" ] || { echo "no patch in $OUT"; exit 2; }
tools/confirm_seed.sh "$WT" "$OUT" > "$OUT/confirm.json" || exit 2
cat "$OUT/confirm.json"
python3 tools/store_seed.py "$OUT" "$PROP" "$NAME" "$NEEDS"
