#!/bin/bash
# Regression of the machinery: every seeded change must be reported (exit 1 + VIOLATION line)
# by the quick tier of the check of the property it breaks.
# usage: tools/run_seeded.sh [repo dir]   (default /repo; the repo must be clean; it is restored afterwards)
REPO=${1:-/repo}
cd "$(dirname "$0")/.."
export VERIF_NO_EVIDENCE=1
ok=0; bad=0
for d in seeded/*/; do
  name=$(basename "$d")
  prop=$(python3 -c "import json;print(json.load(open('$d/meta.json'))['property'])")
  git -C "$REPO" apply "$(pwd)/$d/patch.diff" || { echo "SKIP $name (patch does not apply)"; continue; }
  out=$(./check "$prop" --tier quick 2>&1); rc=$?
  git -C "$REPO" checkout -- .
  n=$(echo "$out" | grep -c "^VIOLATION property=$prop")
  if [ $rc -eq 1 ] && [ "$n" -ge 1 ]; then echo "DETECTED $name by $prop ($n violation lines)"; ok=$((ok+1));
  else echo "MISSED   $name by $prop (exit $rc)"; bad=$((bad+1)); fi
done
echo "seeded changes detected: $ok, missed: $bad"
