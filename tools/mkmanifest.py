#!/usr/bin/env python3
"""Writes MANIFEST.json from the table below and validates it against the schema."""
import json
import os
import sys

VERIF = os.path.dirname(os.path.dirname(os.path.abspath(__file__)))
sys.path.insert(0, VERIF)
from vlib.manifest_table import CHECKS, NOT_APPLICABLE, ENGINES  # noqa: E402

props = [json.loads(l)["id"] for l in open(os.path.join(VERIF, "properties.jsonl")) if l.strip()]
checks = []
for pid in props:
    if pid not in CHECKS:
        continue
    c = CHECKS[pid]
    checks.append({
        "property_id": pid,
        "quick_cmd": "./check %s --tier quick" % pid,
        "thorough_cmd": "./check %s --tier thorough" % pid,
        "evidence_file": "/verif/evidence/%s.json" % pid,
        "replay_cmd_template": "./check %s --replay {path}" % pid,
        "engine": c.get("engine", "tlc"),
        "level_claimed": {"category": c["level"], "text": c["text"], "design_ref": c["design_ref"]},
        "level_note": c["note"],
        "technique": c["technique"],
    })
na = [{"property_id": p, "reason": NOT_APPLICABLE.get(p, "check not built yet in this session; see DESIGN.md section 5")}
      for p in props if p not in CHECKS]
m = {
    "version": 1,
    "setup_cmd": "./setup.sh",
    "hooks": {
        "guard": "--cfg hpbf_verif",
        "enable": "harness/.cargo/config.toml passes rustflags --cfg hpbf_verif to the harness build, which compiles "
                  "hpbf from /repo's working tree as a path dependency",
        "baseline_off_cmd": "cd /repo && cargo test --workspace --no-fail-fast --offline",
        "source_commits": [l.strip() for l in open(os.path.join(VERIF, "hooks-commits.txt")) if l.strip()],
        "add_only": True,
    },
    "engines": ENGINES,
    "checks": checks,
    "not_applicable": na,
    "notes": "Model-based verification with explicit TLA+ specifications (spec/*.tla) checked by TLC and bound to the "
             "Rust code by trace validation and by replaying TLC-generated behaviours; see DESIGN.md.",
}
with open(os.path.join(VERIF, "MANIFEST.json"), "w") as f:
    json.dump(m, f, indent=1)
try:
    import jsonschema
    jsonschema.validate(m, json.load(open("/root/.vp/MANIFEST.schema.json")))
    print("MANIFEST.json valid: %d checks, %d not_applicable" % (len(checks), len(na)))
except ImportError:
    print("MANIFEST.json written (jsonschema not available here)")
