#!/usr/bin/env python3
"""store_seed.py <out dir of the sub-agent> <property> <name> <needs> : copies a confirmed seeded change into
/verif/seeded/<name>/ (patch.diff, demonstration, notes, meta.json)."""
import json, os, shutil, sys
out, prop, name, needs = sys.argv[1:5]
dst = os.path.join("/verif/seeded", name)
os.makedirs(dst, exist_ok=True)
for f in os.listdir(out):
    if f in ("patch.diff", "notes.md", "demo_seeded.rs", "demo.sh") or f.startswith("demo"):
        shutil.copy(os.path.join(out, f), os.path.join(dst, f))
conf = json.load(open(os.path.join(out, "confirm.json")))
meta = {
    "property": prop,
    "needs_to_manifest": needs,
    "produced_by": "independent sub-agent given only the property text and a scratch worktree",
    "confirmed_by_me": {
        "how": "tools/confirm_seed.sh in the scratch worktree: existing suite with the change (demo moved aside), "
               "demo with the change, demo with src stashed",
        "suite_with_change": conf["suite_with_change"],
        "demo_with_change": conf["demo_with_change"],
        "demo_without_change": conf["demo_without_change"],
    },
    "detected_by": [],
}
mp = os.path.join(dst, "meta.json")
if os.path.exists(mp):
    old = json.load(open(mp))
    meta["detected_by"] = old.get("detected_by", [])
json.dump(meta, open(mp, "w"), indent=1)
print("stored", dst)
