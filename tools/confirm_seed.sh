#!/bin/bash
# Confirms a seeded change produced in a scratch worktree:
#   1. the existing suite passes with the change (demo file moved aside)
#   2. the demonstration fails with the change
#   3. the demonstration passes without it
# usage: confirm_seed.sh <worktree> <outdir> ; prints a JSON summary
WT=$1; OUT=$2
cd "$WT" || exit 2
DEMO=tests/demo_seeded.rs
[ -f "$OUT/demo_seeded.rs" ] && mkdir -p tests && cp "$OUT/demo_seeded.rs" $DEMO
git diff -- src > /tmp/confirm.$$.diff
mkdir -p /tmp/confirm.$$ && mv $DEMO /tmp/confirm.$$/ 2>/dev/null
suite=$(timeout -k 10 1200 cargo test --workspace --no-fail-fast --offline 2>&1 | grep -E "^test result" | tr '\n' ';')
mv /tmp/confirm.$$/demo_seeded.rs $DEMO 2>/dev/null
with=$(timeout -k 10 900 cargo test --offline --test demo_seeded 2>&1 | grep -E "^test result" | tr '\n' ';')
git apply -R /tmp/confirm.$$.diff        # (not git stash: the stash is shared between worktrees)
without=$(timeout -k 10 900 cargo test --offline --test demo_seeded 2>&1 | grep -E "^test result" | tr '\n' ';')
git apply /tmp/confirm.$$.diff
rm -rf /tmp/confirm.$$ /tmp/confirm.$$.diff
python3 - "$suite" "$with" "$without" <<'PY'
import sys, json
print(json.dumps({"suite_with_change": sys.argv[1], "demo_with_change": sys.argv[2], "demo_without_change": sys.argv[3]}))
PY
