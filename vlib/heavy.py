"""Population H: programs whose canonical run is astronomically long (2^32 steps and more) but
consists of *linear* loops, which BF.tla summarises in one step each (action Accel, checked
against the step-by-step machine by MCBF's invariant AccelSound).  They put values such as
k * 2^32 into 64-bit cells - the only way to reach them is through multiplication loops - and
then branch, loop, subtract and print on them.

Every loop the builder emits is one of
  linear   [ ... - ]           body of + - < > only, net shift 0, counter changed by -1
  once     [ body [-] ]        body returns to the counter cell, which is then cleared
  while    [ build U; c -= U ] c was built as a * U with the same multipliers, so it reaches 0
so every program terminates unless a divergent tail is asked for (`tail="spin"`)."""
import random


class B:
    def __init__(self):
        self.t = []
        self.pos = 0

    def go(self, i):
        d = i - self.pos
        self.t.append((">" * d) if d > 0 else ("<" * -d))
        self.pos = i

    def raw(self, s):
        self.t.append(s)

    def clear(self, i):
        self.go(i)
        self.raw("[-]")

    def const(self, i, k):
        self.clear(i)
        self.raw("+" * k)

    def inp(self, i):
        self.go(i)
        self.raw(",")

    def out(self, i):
        self.go(i)
        self.raw(".")

    def mulmove(self, i, targets):
        """cell i is added, multiplied by m, to every (j, m) in targets (m < 0 subtracts); i becomes 0"""
        self.go(i)
        self.raw("[")
        for j, m in targets:
            self.go(j)
            self.raw(("+" * m) if m > 0 else ("-" * -m))
        self.go(i)
        self.raw("-]")

    def once(self, i, body):
        self.go(i)
        self.raw("[")
        body()
        self.go(i)
        self.raw("[-]]")

    def text(self):
        return "".join(self.t)


def scale(b, src, scratch, mults):
    """multiplies cell src by every multiplier in turn, hopping between src and scratch; returns the
    cell that holds the product"""
    cur, other = src, scratch
    for m in mults:
        b.clear(other)
        b.mulmove(cur, [(other, m)])
        cur, other = other, cur
    return cur


def pow2_mults(rng, s):
    """multipliers whose product is 2^s"""
    out = []
    while s > 0:
        k = rng.choice([k for k in (1, 2, 3, 4, 8) if k <= s])
        out.append(2 ** k)
        s -= k
    rng.shuffle(out)
    return out


def interesting_shift(rng, w):
    c = [w // 2, w - 8, w - 1, w // 2 + 3, w // 2 - 1, 8, w, w - 4]
    if w == 64:
        c += [32, 32, 33, 31, 40, 48, 56, 63]
    if w == 32:
        c += [16, 16, 17, 24, 31]
    return max(1, rng.choice(c))


def flag(b, cell, f):
    """prints 0 if the cell is non-zero, 1 if it is zero (the cell is consumed)"""
    b.const(f, 1)
    b.once(cell, lambda: b.const(f, 0))
    b.out(f)


def gen_net(rng, w):
    """More values alive than there are registers, with partial sums that go negative and come back
    to zero.  The inputs come in groups of equal values (pairs and one or two triples); cell j is
    replaced, in place, by a signed sum of all *other* cells in which the two members of every pair
    get opposite signs (orientation chosen per row, so rows share no common subexpression).  For a
    cell of a triple the rest of its group is a pair, so its sum is exactly 0 although the partial
    sums borrow through all upper bits; for a cell of a pair the sum is +-(its partner)."""
    b = B()
    groups = []
    for _ in range(rng.randint(1, 2)):
        groups.append([rng.randint(1, 255)] * 3)
    while sum(len(g) for g in groups) < rng.randint(12, 16):
        groups.append([rng.choice([rng.randint(1, 255), rng.randint(150, 255)])] * 2)
    cells = [(gi, x) for gi, g in enumerate(groups) for x in g]
    rng.shuffle(cells)
    n = len(cells)
    inputs = [x for _, x in cells]
    for i in range(n):
        b.inp(i)
    # sign[j][i]: coefficient of x_i in row j
    sign = [[0] * n for _ in range(n)]
    for j in range(n):
        for gi in range(len(groups)):
            members = [i for i in range(n) if cells[i][0] == gi and i != j]
            rng.shuffle(members)
            if len(members) == 3:                 # j is elsewhere: a full triple cannot cancel, use two of it
                members = members[:2]
            if len(members) == 2:
                sign[j][members[0]], sign[j][members[1]] = 1, -1
            elif len(members) == 1:
                sign[j][members[0]] = rng.choice([1, -1])
    for i in range(n):
        b.mulmove(i, [(n + j, sign[j][i]) for j in range(n) if j != i and sign[j][i] != 0])
    back = list(range(n))
    rng.shuffle(back)
    for j in back:
        b.mulmove(n + j, [(j, 1)])
    order = list(range(n))
    rng.shuffle(order)
    for j in order[: rng.randint(6, n)]:
        b.out(j)
        flag(b, j, 2 * n + 2)
    return {"prog": b.text(), "input": inputs, "w": w, "accel": 1}


def gen_heavy(rng, w, tail=None):
    if tail is None and rng.random() < 0.25:
        return gen_net(rng, w)
    b = B()
    inputs = []
    kind = rng.randrange(6)

    def small(i, lo=1, hi=6):
        """a small runtime or compile-time value in cell i"""
        v = rng.randint(lo, hi)
        if rng.random() < 0.6:
            b.inp(i)
            inputs.append(v)
        else:
            b.const(i, v)
        return v

    if kind in (0, 1):
        # a * 2^s: print, test, count down by 2^s with the big cell as the loop condition
        s = interesting_shift(rng, w)
        mults = pow2_mults(rng, s)
        a = small(0, 1, 5 if kind == 0 else 3)
        if rng.random() < 0.3:
            mults.insert(rng.randrange(len(mults) + 1), rng.choice([3, 5, 7, 255]))
        big = scale(b, 0, 1, mults)
        oth = 1 - big
        b.clear(oth)
        b.clear(2)
        b.mulmove(big, [(oth, 1), (2, 1)])          # two copies: oth, 2
        b.out(oth)
        flag(b, oth, 4)                               # consumes oth
        # while (cell2) { U = 2^s (built in cells 6/7); cell2 -= U; print '*' }
        b.go(2)
        b.raw("[")
        b.const(6, 1)
        u = scale(b, 6, 7, mults)
        b.mulmove(u, [(2, -1)])
        b.const(8, ord("*"))
        b.out(8)
        b.go(2)
        b.raw("]")
        b.const(8, ord("e"))
        b.out(8)
        spin_cell, spin_nonzero = 2, False
        if tail:
            # a cell that is (non-)zero only in its upper part
            b.const(10, rng.choice([1, 3, 2]))
            sc = scale(b, 10, 11, mults)
            spin_cell = sc
    elif kind == 4:
        # a run-time value times a constant beyond 32 bits, memory to memory, printed straight away
        a = small(0, 1, 9)
        if rng.random() < 0.7:
            b.out(0)
        m = rng.choice([3, 5, 7, 9, 11, 255, 6, 10])
        mults = [m] * rng.randint(8, 24)
        x = scale(b, 0, 1, mults)
        b.out(x)
        if rng.random() < 0.5:
            b.clear(5)
            b.mulmove(x, [(5, 1), (6, 1)])
            flag(b, 5, 8)
            b.out(6)
        spin_cell = x
    elif kind == 5:
        # a compile-time constant in [2^31, 2^32) (or just outside) added to a run-time value, taken off
        # again with the same amount built at run time, then compared with the original
        a = rng.randint(1, 200)
        b.inp(0)
        inputs.append(a)
        b.clear(3)
        b.clear(4)
        b.mulmove(0, [(3, 1), (4, 1)])
        b.mulmove(4, [(0, 1)])
        k = rng.choice([2, 3, 2, 3, 1, 4, 7])
        s_ = rng.choice([30, 30, 30, 29, 31, w // 2 - 2]) if w == 64 else max(1, w // 2 - 2)
        mults = pow2_mults(rng, max(1, s_))
        b.const(6, k)
        c1 = scale(b, 6, 7, mults)
        b.mulmove(c1, [(0, 1)])
        b.out(0)
        b.inp(8)
        inputs.append(k)
        c2 = scale(b, 8, 9, mults)
        b.mulmove(c2, [(0, -1)])
        b.out(0)
        b.mulmove(3, [(0, -1)])
        flag(b, 0, 11)
        spin_cell = 0
    elif kind == 2:
        # difference of two products
        mults = [rng.choice([2, 3, 5, 7, 16, 255, 256, 128, 100]) for _ in range(rng.randint(2, 9))]
        a = small(0)
        x = scale(b, 0, 1, mults)
        bb = a if rng.random() < 0.5 else small(3)
        if bb == a and inputs and rng.random() < 0.5:
            b.inp(3)
            inputs.append(a)
        elif bb == a:
            b.const(3, a)
        y = scale(b, 3, 4, mults)
        b.mulmove(y, [(x, -1)])                       # x -= y
        b.clear(6)
        b.clear(7)
        b.mulmove(x, [(6, 1), (7, 1)])
        b.out(6)
        flag(b, 6, 8)
        b.clear(6)
        b.mulmove(7, [(6, rng.choice([1, 3, 255]))])
        b.out(6)
        spin_cell = 6
    else:
        # a chain of mixed multiplications with a borrow: (a * M) - 1, + 1, tests in between
        s = interesting_shift(rng, w)
        mults = pow2_mults(rng, s)
        a = small(0, 1, 3)
        x = scale(b, 0, 1, mults)
        b.go(x)
        b.raw("-")                                   # borrow through the low half
        o = 1 - x
        b.clear(o)
        b.clear(2)
        b.mulmove(x, [(o, 1), (2, 1)])
        b.out(o)
        flag(b, o, 4)
        b.go(2)
        b.raw("+")                                   # back to a * 2^s
        b.clear(3)
        b.clear(6)
        b.mulmove(2, [(3, 1), (6, 1)])
        flag(b, 3, 8)
        b.out(6)
        spin_cell = 6
    if tail == "spin":
        b.go(spin_cell)
        b.raw("[]")
        b.const(12, ord("!"))
        b.out(12)
    return {"prog": b.text(), "input": inputs, "w": w, "accel": 1}


def heavy_cases(sd, count, tail_share=0.0, widths=(64, 64, 64, 32, 32, 16, 8)):
    rng = random.Random(sd * 7919 + 13)
    out = []
    for i in range(count):
        w = widths[i % len(widths)]
        tail = "spin" if rng.random() < tail_share else None
        c = gen_heavy(rng, w, tail)
        c["id"] = "H%d" % i
        c["pop"] = "H"
        out.append(c)
    return out


def gen_spin_in_loop(rng, w):
    """A loop body that moves, copies, clears and prints values set up outside the loop, and then
    never reaches its end (an empty loop on a non-zero cell): everything printed before the
    divergence must be the canonical bytes, stores that are still pending outside included."""
    b = B()
    inputs = []
    vals = {}
    for i in range(4):                       # cells 0..3: constants built by a loop, or input bytes
        if rng.random() < 0.6:
            k, m = rng.randint(2, 11), rng.randint(2, 11)
            b.const(8, k)
            b.clear(i)
            b.mulmove(8, [(i, m)])
            if rng.random() < 0.5:
                b.go(i)
                b.raw("+" * rng.randint(1, 3))
        else:
            b.inp(i)
            inputs.append(rng.randint(1, 200))
    b.const(6, rng.randint(1, 3))
    b.go(6)
    b.raw("[")
    for _ in range(rng.randint(2, 7)):
        op = rng.randrange(6)
        i, j = rng.sample(range(5), 2)
        if op == 0:
            b.clear(j)
            b.mulmove(i, [(j, 1)])           # move i -> j
        elif op == 1:
            b.clear(4)
            b.clear(5)
            b.mulmove(i, [(4, 1), (5, 1)])
            b.mulmove(5, [(i, 1)])           # copy i -> 4
        elif op == 2:
            b.out(i)
        elif op == 3:
            b.go(i)
            b.raw(rng.choice(["+", "-", "++"]))
        elif op == 4:
            b.out(j)
        else:
            b.clear(i)
    b.out(rng.randrange(5))
    b.go(6)
    b.raw("[]")
    b.go(6)
    b.raw("-]")
    b.out(0)
    return {"prog": b.text(), "input": inputs, "w": w, "accel": 1}


def spin_cases(sd, count):
    rng = random.Random(sd * 104729 + 7)
    out = []
    for i in range(count):
        c = gen_spin_in_loop(rng, (8, 16, 32, 64)[i % 4])
        c["id"] = "Hs%d" % i
        c["pop"] = "H"
        out.append(c)
    return out
