"""C14: Cell.tla contracts - exhaustive design check (MCCell) and validation of the real CellType results."""
import os
import random

from . import pool, tlc
from .common import NCPU, Report, ToolError, build_harness, log, seed, workdir, replay_witness

OPS2 = ["div", "and", "add", "mul"]
OPS1 = ["inv", "tz", "neg", "zext", "sext", "intou8", "tryi16"]


def interesting(w, rng, n):
    m = (1 << w) - 1
    vals = {0, 1, 2, 3, m, m - 1, 1 << (w - 1), (1 << (w - 1)) - 1, (1 << (w - 1)) + 1, 0x5555555555555555 & m,
            0xAAAAAAAAAAAAAAAB & m, 0x0123456789ABCDEF & m}
    for k in range(w):
        vals.add(1 << k)
        vals.add(((1 << k) - 1) & m)
        vals.add(((1 << k) + 1) & m)
        vals.add((m << k) & m)
    vals = sorted(vals)
    out = list(vals)
    while len(out) < n:
        x = rng.getrandbits(w)
        if rng.random() < 0.5:                 # many trailing zeros
            x = (x << rng.randint(0, w - 1)) & m
        out.append(x)
    return out


def calls_for(w, rng, tier):
    calls = []
    if w == 8:
        for n in range(256):
            for d in range(256):
                calls.append(["div", str(n), str(d), 0])
        vals = list(range(256))
        pairs = [(a, b) for a in range(0, 256, 5) for b in range(0, 256, 7)]
    else:
        vals = interesting(w, rng, 400 if tier == "quick" else 3000)
        core = vals[: min(len(vals), 150 if tier == "quick" else 400)]
        pairs = [(a, b) for a in core for b in core]
        rng.shuffle(pairs)
        pairs = pairs[: (6000 if tier == "quick" else 60000)]
        for (a, b) in pairs:
            calls.append(["div", str(a), str(b), 0])
        for _ in range(3000 if tier == "quick" else 40000):      # solvable by construction: n = x*d
            x, d = rng.choice(vals), rng.choice(vals)
            calls.append(["div", str((x * d) & ((1 << w) - 1)), str(d), 0])
    for (a, b) in pairs[: (2000 if tier == "quick" else 20000)]:
        for op in ("and", "add", "mul"):
            calls.append([op, str(a), str(b), 0])
    for a in vals:
        for op in OPS1:
            calls.append([op, str(a), "0", 0])
        for k in (0, 1, 2, w // 2, w - 1, w, w + 1, 200):
            calls.append(["shr", str(a), "0", k])
            calls.append(["shl", str(a), "0", k])
    # power chains: every link k = 0..w of pow(b, e >> k)
    bases = vals[:: max(1, len(vals) // (24 if tier == "quick" else 120))]
    exps = vals[:: max(1, len(vals) // (24 if tier == "quick" else 120))] + [(1 << (w - 1)) - 1]
    for b in bases:
        for e in exps:
            for k in range(w + 1):
                calls.append(["pow2", str(b), str(e), k])
    for x in [0, 1, 127, 128, 255, 256, 32767, 32768, 65535, 65536, (1 << 31), (1 << 32) - 1, (1 << 63), (1 << 64) - 1,
              0x0123456789ABCDEF] + [rng.getrandbits(64) for _ in range(50)]:
        calls.append(["trunc", str(x), "0", 0])
        calls.append(["fromu8", str(x & 255), "0", 0])
        calls.append(["fromi16", str(x & 65535), "0", 0])
    return calls


def c14(tier):
    rep = Report("C14", "model_checking", tier)
    sd = seed()
    rng = random.Random(sd)
    bins = build_harness(("release",))
    hv = bins["release"]
    rw = replay_witness()
    maxw = 6 if tier == "quick" else 7      # (8 is exhaustive too, but takes 40 min alone and hours on a loaded machine)
    if rw and "call" in rw:
        maxw = 2
    res = tlc.run_tlc("MCCell", env={"MAXW": maxw}, workers=max(2, NCPU - 2), timeout=14400, allow_violation=True)
    rep.add_tlc(res)
    rep.coverage["design_check"] = {"widths": "1..%d" % maxw, "operand_pairs": res.distinct,
                                    "invariants": ["DivMatchesBruteForce", "ContractsMatchBruteForce", "InvOK",
                                                   "PowOK", "ShiftOK", "RingOK"]}
    if res.violated:
        raise ToolError("MCCell: the transcription in Cell.tla violates %s\n%s" % (res.violated, res.raw_tail))
    reqs = []
    CH = 2500
    for w in ((rw["w"],) if (rw and "call" in rw) else (8, 16, 32, 64)):
        calls = [rw["call"]] if (rw and "call" in rw) else calls_for(w, rng, tier)
        for k in range(0, len(calls), CH):
            reqs.append({"op": "arith", "id": "w%d_%d" % (w, k // CH), "w": w, "calls": calls[k:k + CH]})
    answers = pool.simple_requests(hv, reqs, timeout=120.0)
    traces = []
    nev = 0
    for rq, a in zip(reqs, answers):
        if a is None or "events" not in a or a.get("end") != "ok":
            rep.violation({"w": rq["w"], "calls": rq["calls"][:5], "observed": a},
                          "CellType helpers crashed or panicked: %r" % (a,))
            continue
        traces.append({"id": rq["id"], "events": a["events"]})
        nev += len(a["events"])
    verdicts = tlc.validate_in_chunks("ArithTrace", traces, rep, "C14", chunk=200)
    rep.coverage["traces_validated_against_impl"] = len(traces)
    rep.coverage["events_validated"] = nev
    # non-trivial: distinct (operation, width, operands) of div / inv / pow with both operands >= 2
    distinct = set()
    for t in traces:
        for e in t["events"]:
            if e["op"] in ("div", "inv", "pow2") and sum(e["a"]) >= 2 and (e["op"] == "inv" or sum(e["b"]) >= 2):
                distinct.add((e["op"], e["w"], tuple(e["a"]), tuple(e["b"]), e["k"]))
    rep.coverage["distinct_nontrivial"] = len(distinct)
    byid = {rq["id"]: rq for rq in reqs}
    for t in traces:
        v = verdicts[t["id"]]
        if v["verdict"] != "accepted":
            rq = byid[t["id"]]
            rep.violation({"w": rq["w"], "call": rq["calls"][v["pos"] - 1], "tlc": v},
                          "CellType u%d: %s" % (rq["w"], v["why"]))
    rep.sample({"w": 64, "events": traces[-1]["events"][:3]})
    rep.coverage["rule"] = ("design: TLC checks the transcriptions of wrapping_div/inv/pow and the closed-form "
                            "contracts against brute force for every operand pair at widths 1..%d; binding: the "
                            "real u8/u16/u32/u64 implementations are called on every (n,d) pair at 8 bit, on "
                            "structured operands (0, 1, 2^k, 2^k+-1, masks, many trailing zeros, random; plus "
                            "quotients solvable by construction) at 16/32/64 bit, every link of the "
                            "square-and-multiply chain of pow, shifts by 0..W+1 and 200, and the conversions; each "
                            "recorded result is validated by TLC (ArithTrace.tla) against the contracts with exact "
                            "limb arithmetic; non-trivial = distinct div / inv / pow events whose operands "
                            "are both >= 2" % maxw)
    return rep.finish()


CHECKS = {"C14": c14}
