from . import props_bf

CHECKS = {}
CHECKS.update(props_bf.CHECKS)
