from . import (props_bf, props_tape, props_static, props_parser, props_sv, props_arith, props_cli,
               props_compile, props_expr)

CHECKS = {}
for m in (props_bf, props_tape, props_static, props_parser, props_sv, props_arith, props_cli, props_compile,
          props_expr):
    CHECKS.update(m.CHECKS)

from . import selftest as _selftest
CHECKS["selftest"] = _selftest.selftest
