from . import props_bf, props_tape, props_static

CHECKS = {}
CHECKS.update(props_bf.CHECKS)
CHECKS.update(props_tape.CHECKS)
CHECKS.update(props_static.CHECKS)
