from . import props_bf, props_tape, props_static, props_parser, props_sv

CHECKS = {}
for m in (props_bf, props_tape, props_static, props_parser, props_sv):
    CHECKS.update(m.CHECKS)
