from . import props_bf, props_tape

CHECKS = {}
CHECKS.update(props_bf.CHECKS)
CHECKS.update(props_tape.CHECKS)
