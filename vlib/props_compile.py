"""C13: Compile.tla - compilation is total and deterministic, executors are reusable."""
import os
import random
import threading
import time

from . import pool, tlc
from .common import NCPU, Report, ToolError, build_harness, log, seed, workdir, replay_witness
from .props_bf import population, dev_pops

NOASLR = ["setarch", "x86_64", "-R"]      # machine code embeds the absolute addresses of the runtime shims


def one_process(hv, reqs, out, idx):
    """All requests go through ONE worker process (one hash-seed universe), in the given order."""
    w = pool.Worker(hv, prefix=NOASLR)
    res = []
    try:
        for rq in reqs:
            t0 = time.time()
            if not w.send(rq):
                res.append((rq, {"died": "EPIPE"}, 0.0))
                w.kill()
                w.start()
                continue
            msg = w.readline(120.0)
            if isinstance(msg, tuple):
                res.append((rq, {"died": pool.signame(msg[1]) if msg[0] == "eof" else "hung"}, time.time() - t0))
                w.kill()
                w.start()
            else:
                res.append((rq, msg, time.time() - t0))
    finally:
        w.close()
    out[idx] = res


def c13(tier):
    rep = Report("C13", "model_checking", tier)
    sd = seed()
    rng = random.Random(sd)
    bins = build_harness(("release",))
    hv = bins["release"]
    per = {"S": 150, "N": 60, "R": 80, "rnd": 120, "L": 60, "M": 80, "I": 40} if tier == "quick" else \
          {"S": 3000, "N": 1000, "R": 400, "rnd": 2000, "L": 800, "M": 1500, "I": 400, "E": 3000}
    pops, per = dev_pops(list(per), per)
    cases = population(hv, tier, sd, pops, per)
    # nesting families of moderate depth (hundreds): totality
    for depth in (50, 150, 300):
        cases.append({"id": "nest%d" % depth, "pop": "nest", "prog": "[" * depth + "-" + "]" * depth, "w": 8, "input": []})
        cases.append({"id": "nestb%d" % depth, "pop": "nest", "prog": "+" + "[>+" * depth + "]" * depth, "w": 16,
                      "input": []})
    refs = pool.simple_requests(hv, [{"op": "ref", "id": c["id"], "prog": c["prog"], "w": c["w"], "input": c["input"],
                                      "maxSteps": 5000, "maxEv": 250} for c in cases])
    # population H (vlib/heavy.py): halting by construction, but only the optimising pipelines can finish them
    from . import heavy
    hc = heavy.heavy_cases(sd, 60 if tier == "quick" else 1500)
    cases += hc
    refs += [{"class": "halts", "heavy": 1}] * len(hc)
    # a larger compile-only population for the totality clause (no executions, one level each)
    # (the same seeded population as C01, so whatever reaches the optimiser there reaches it here)
    extra_per = {"rnd": 3000, "S": 6000, "M": 2000, "N": 500, "L": 1500, "G": 1500} if tier == "quick" else \
                {"rnd": 15000, "S": 40000, "M": 10000, "N": 3000, "L": 10000, "G": 8000}
    extra = population(hv, tier, sd, list(extra_per), extra_per)
    for i, c in enumerate(extra):
        c["id"] = "x" + c["id"]
        c["compile_only"] = 1 + (i % 3 if tier == "quick" else i % 3)
    cases += extra
    refs += [None] * len(extra)
    reqs = []
    for c, r in zip(cases, refs):
        halts = 1 if (r and r.get("class") == "halts") else 0
        if halts and r.get("heavy"):
            halts = 2
        if c.get("compile_only"):
            reqs.append({"op": "compile", "id": "%s|%d|%d" % (c["id"], c["w"], c["compile_only"]), "prog": c["prog"],
                         "w": c["w"], "level": c["compile_only"], "input": [], "execute": 0})
            continue
        for level in ((1, 2, 3) if c["pop"] != "nest" else (0, 1, 2, 3)):
            reqs.append({"op": "compile", "id": "%s|%d|%d" % (c["id"], c["w"], level), "prog": c["prog"], "w": c["w"],
                         "level": level, "input": c["input"], "execute": halts})
        # "levels above 3 behave like level 3" (C01): the same store key as level 3
        for level in (4, 9):
            reqs.append({"op": "compile", "id": "%s|%d|%d" % (c["id"], c["w"], 3), "prog": c["prog"], "w": c["w"],
                         "level": level, "input": c["input"], "execute": 0, "alias": 1})
    rw = replay_witness()
    if rw and "prog" in rw and "level" in rw:
        reqs = [{"op": "compile", "id": "replay|%d|%d" % (rw["w"], rw["level"]), "prog": rw["prog"], "w": rw["w"],
                 "level": rw["level"], "input": [], "execute": 0}]
    nproc = 4 if tier == "quick" else 8
    out = [None] * nproc
    threads = []
    for p in range(nproc):
        order = list(reqs)
        random.Random(sd * 100 + p).shuffle(order)
        if p % 2:                     # odd processes see every request twice (what was compiled before must not matter)
            order = order + order[: len(order) // 3]
        th = threading.Thread(target=one_process, args=(hv, order, out, p), daemon=True)
        th.start()
        threads.append(th)
    for th in threads:
        th.join()
    # merge the observations of all processes, grouped by case so that TLC validates the groups in parallel
    groups = {}
    nobs = 0
    slow = []
    for p, res in enumerate(out):
        for rq, a, dt in res:
            g = groups.setdefault(rq["id"], [])
            if dt > 5.0:
                slow.append((rq["id"], round(dt, 1)))
            if "artifacts" not in a:
                g.append({"proc": p, "ev": "failed", "key": rq["id"], "digest": a.get("died", "?"), "exe": "", "nth": 0,
                          "size": 0})
                continue
            for kind, ev, digest in a["artifacts"]:
                g.append({"proc": p, "ev": ev, "key": kind + "|" + rq["id"], "digest": digest, "exe": "", "nth": 0,
                          "size": 0})
                nobs += 1
            for backend, nth, digest in a["executions"]:
                if "~" in backend:
                    # one executor driven through different entry points in turn (execute, execute_limited with
                    # budget 3 and 2^62): whatever came before, a call must give what it gives on a fresh
                    # executor - the artifact store has one entry per (entry point, program) resp. per
                    # (entry point, backend, program) for the budget-3 prefix, which differs between backends
                    b, entry, _seq = backend.split("~")
                    key = "%s|%s" % (entry, rq["id"]) if entry != "lim3" else "%s|%s|%s" % (entry, b, rq["id"])
                    g.append({"proc": p, "ev": "artifact", "key": key, "digest": digest, "exe": "", "nth": 0, "size": 0})
                    nobs += 1
                    continue
                g.append({"proc": p, "ev": "execute", "key": "", "digest": digest, "size": 0,
                          "exe": "%s|%s|%d" % (backend, rq["id"], id(rq) % 1000003), "nth": nth})
                # all backends and all processes must also agree on the first execution's log
                if nth == 1:
                    g.append({"proc": p, "ev": "artifact", "key": "exec|" + rq["id"], "digest": digest, "exe": "",
                              "nth": 0, "size": 0})
                nobs += 1
    traces = []
    byid_prog = {rq["id"]: rq["prog"] for rq in reqs}
    for gid, evs in groups.items():
        traces.append({"id": gid, "events": evs})
    d = workdir("C13")
    for t in traces:
        for e in t["events"]:
            e.setdefault("size", 0)
    verdicts = tlc.validate_in_chunks("Compile", traces, rep, "C13", chunk=6000)
    rep.coverage["traces_validated_against_impl"] = len(traces)
    rep.coverage["observations"] = nobs
    rep.coverage["processes"] = nproc
    # non-trivial: distinct (program, width, level) with a loop whose artifacts were observed in >= 2 processes
    rep.coverage["distinct_nontrivial"] = sum(
        1 for t in traces if "[" in byid_prog.get(t["id"], "") and len({e["proc"] for e in t["events"]}) >= 2)
    byid = {rq["id"]: rq for rq in reqs}
    for t in traces:
        v = verdicts[t["id"]]
        if v["verdict"] != "accepted":
            rq = byid[t["id"]]
            rep.violation({"prog": rq["prog"], "w": rq["w"], "level": rq["level"], "tlc": v},
                          "compile %s w=%d O%d: %s" % (rq["prog"][:120], rq["w"], rq["level"], v["why"]))
    if traces:
        rep.sample({"id": traces[0]["id"], "events": traces[0]["events"][:6]})
    if slow:
        rep.info("compile requests slower than 5 s (outside the model, not an alarm): %s" % slow[:10])
    # complexity clause: scaling families (source length linear in k), sizes of the printed artifacts
    SQ = "[->+>+<<]>[->[-<<+>>>+<]>[-<+>]<<]>[-]<<"
    families = {
        "square-chain": lambda k: "," + SQ * k + ".",
        "move-chain": lambda k: "," + "[->+<]>" * k + ".",
        "scale-chain": lambda k: "," + "[->+++<]>[-<+>]<" * k + ".",
        "add-chain": lambda k: ",>,<" + "[->+>+<<]>>[-<<+>>]<" * k + ">.",
        "nest": lambda k: "+" + "[>+" * k + "]" * k,
        "io-chain": lambda k: ",.+" * k,
        "mul-acc-chain": lambda k: ",>,>,<<" + "[->[->>+>+<<<]>>>[-<<<+>>>]<<<<]>>[-<<+>>]<<" * k + ".",
        # two results of one round are the factors of the next
        "two-target-mul-chain": lambda k: ",>,<" + "[->>[-]<[->+>+>+<<<]>[-<+>]<<]>>>" * k + ".",
        # squarings inside a loop body, each result printed (the written-value bookkeeping must stay bounded)
        "square-in-loop": lambda k: ",>,<[>>[-]>[-]>[-]<<<" + (SQ + ".") * (k + 10) + "<-]",
    }
    ks = list(range(8, 15)) if tier == "quick" else list(range(8, 19))
    sreqs = []
    for fam, mk in families.items():
        for k in ks:
            for kind in ("ir", "bc"):
                sreqs.append({"op": "render", "id": "%s|%s|%d" % (fam, kind, k), "kind": kind, "prog": mk(k), "w": 8,
                              "level": 3})
    sans = pool.simple_requests(hv, sreqs, timeout=300.0)
    fam_events = {}
    table = {}
    for rq, a in zip(sreqs, sans):
        fam, kind, k = rq["id"].split("|")
        key = fam + "|" + kind
        if not a or "text" not in a:
            fam_events.setdefault(key, []).append({"proc": 0, "ev": "failed", "key": rq["id"],
                                                   "digest": (a or {}).get("died", "hung"), "exe": "", "nth": 0,
                                                   "size": 0})
            continue
        fam_events.setdefault(key, []).append({"proc": 0, "ev": "size", "key": key, "digest": "", "exe": "",
                                               "nth": int(k), "size": len(a["text"])})
        table.setdefault(key, []).append(len(a["text"]))
        # compile time of the member, in ms with a floor of 100 ms: only a run of members that each take
        # 1.7 times as long as the one before, from 100 ms upwards, is super-polynomial growth
        tkey = fam + "|time-" + kind
        ms = max(100, int(a.get("ms", 0)))
        fam_events.setdefault(tkey, []).append({"proc": 0, "ev": "time", "key": tkey, "digest": "", "exe": "",
                                                "nth": int(k), "size": ms})
        table.setdefault(tkey, []).append(ms)
    straces = [{"id": "scale:" + key, "events": evs} for key, evs in fam_events.items()]
    for t in traces:
        for e in t["events"]:
            e.setdefault("size", 0)
    spath = os.path.join(d, "scaling.ndjson")
    tlc.write_ndjson(spath, straces)
    res = tlc.run_tlc("Compile", env={"CASES": spath}, workers=4, timeout=600)
    rep.add_tlc(res)
    sverd = {r["id"]: r for r in res.records if "verdict" in r}
    rep.coverage["scaling_families"] = {"members_k": ks, "printed_size_by_family": table}
    for st in straces:
        v = sverd.get(st["id"])
        if v is None:
            raise ToolError("no verdict for scaling family " + st["id"])
        if v["verdict"] != "accepted":
            fam, kind = st["id"][6:].split("|")
            kind = kind.replace("time-", "compile time, ")
            rep.violation({"family": fam, "artifact": kind, "level": 3, "w": 8, "member": families[fam](ks[0]),
                           "k": ks, "tlc": v},
                          "scaling family %s (%s): %s" % (fam, kind, v["why"][:300]))
    rep.coverage["rule"] = ("for every (program, width, level 1-3) of the populations plus nesting families of depth "
                            "50..300: printed IR, bytecode (2 registers), JIT bytecode, machine code (three modes), "
                            "create results and the event logs of three consecutive executions of each executor are "
                            "recorded in %d separate processes (fresh hash seeds, shuffled orders, repeated requests); "
                            "TLC (Compile.tla) checks that every key has one artifact across all processes and that "
                            "the n-th execution of an executor equals the first; non-trivial = programs with a loop "
                            "observed in at least two processes" % nproc)
    rep.assumptions.append("worker processes run with address-space randomisation off (setarch -R): machine code "
                           "embeds the absolute addresses of the three runtime shims")
    rep.assumptions.append("the 'no super-polynomial blow-up' clause is decided on seven scaling families only, by "
                           "the growth ratio of the printed artifact (>= 1.7 between all consecutive members k >= 8 = "
                           "exponential); compile time is not measured")
    return rep.finish()


CHECKS = {"C13": c13}
