"""C13: Compile.tla - compilation is total and deterministic, executors are reusable."""
import os
import random
import threading
import time

from . import pool, tlc
from .common import NCPU, Report, ToolError, build_harness, log, seed, workdir
from .props_bf import population, dev_pops

NOASLR = ["setarch", "x86_64", "-R"]      # machine code embeds the absolute addresses of the runtime shims


def one_process(hv, reqs, out, idx):
    """All requests go through ONE worker process (one hash-seed universe), in the given order."""
    w = pool.Worker(hv, prefix=NOASLR)
    res = []
    try:
        for rq in reqs:
            t0 = time.time()
            if not w.send(rq):
                res.append((rq, {"died": "EPIPE"}, 0.0))
                w.kill()
                w.start()
                continue
            msg = w.readline(120.0)
            if isinstance(msg, tuple):
                res.append((rq, {"died": pool.signame(msg[1]) if msg[0] == "eof" else "hung"}, time.time() - t0))
                w.kill()
                w.start()
            else:
                res.append((rq, msg, time.time() - t0))
    finally:
        w.close()
    out[idx] = res


def c13(tier):
    rep = Report("C13", "model_checking", tier)
    sd = seed()
    rng = random.Random(sd)
    bins = build_harness(("release",))
    hv = bins["release"]
    per = {"S": 150, "N": 60, "R": 80, "rnd": 120, "L": 60, "M": 80, "I": 40} if tier == "quick" else \
          {"S": 3000, "N": 1000, "R": 400, "rnd": 2000, "L": 800, "M": 1500, "I": 400, "E": 3000}
    pops, per = dev_pops(list(per), per)
    cases = population(hv, tier, sd, pops, per)
    # nesting families of moderate depth (hundreds): totality
    for depth in (50, 150, 300):
        cases.append({"id": "nest%d" % depth, "pop": "nest", "prog": "[" * depth + "-" + "]" * depth, "w": 8, "input": []})
        cases.append({"id": "nestb%d" % depth, "pop": "nest", "prog": "+" + "[>+" * depth + "]" * depth, "w": 16,
                      "input": []})
    refs = pool.simple_requests(hv, [{"op": "ref", "id": c["id"], "prog": c["prog"], "w": c["w"], "input": c["input"],
                                      "maxSteps": 5000, "maxEv": 250} for c in cases])
    reqs = []
    for c, r in zip(cases, refs):
        halts = 1 if (r and r.get("class") == "halts") else 0
        for level in ((1, 2, 3) if c["pop"] != "nest" else (0, 1, 2, 3)):
            reqs.append({"op": "compile", "id": "%s|%d|%d" % (c["id"], c["w"], level), "prog": c["prog"], "w": c["w"],
                         "level": level, "input": c["input"], "execute": halts})
    nproc = 4 if tier == "quick" else 8
    out = [None] * nproc
    threads = []
    for p in range(nproc):
        order = list(reqs)
        random.Random(sd * 100 + p).shuffle(order)
        if p % 2:                     # odd processes see every request twice (what was compiled before must not matter)
            order = order + order[: len(order) // 3]
        th = threading.Thread(target=one_process, args=(hv, order, out, p), daemon=True)
        th.start()
        threads.append(th)
    for th in threads:
        th.join()
    # merge the observations of all processes, grouped by case so that TLC validates the groups in parallel
    groups = {}
    nobs = 0
    slow = []
    for p, res in enumerate(out):
        for rq, a, dt in res:
            g = groups.setdefault(rq["id"], [])
            if dt > 5.0:
                slow.append((rq["id"], round(dt, 1)))
            if "artifacts" not in a:
                g.append({"proc": p, "ev": "failed", "key": rq["id"], "digest": a.get("died", "?"), "exe": "", "nth": 0})
                continue
            for kind, ev, digest in a["artifacts"]:
                g.append({"proc": p, "ev": ev, "key": kind + "|" + rq["id"], "digest": digest, "exe": "", "nth": 0})
                nobs += 1
            for backend, nth, digest in a["executions"]:
                g.append({"proc": p, "ev": "execute", "key": "", "digest": digest,
                          "exe": "%s|%s|%d" % (backend, rq["id"], id(rq) % 1000003), "nth": nth})
                # all backends and all processes must also agree on the first execution's log
                if nth == 1:
                    g.append({"proc": p, "ev": "artifact", "key": "exec|" + rq["id"], "digest": digest, "exe": "", "nth": 0})
                nobs += 1
    traces = []
    for gid, evs in groups.items():
        traces.append({"id": gid, "events": evs})
    d = workdir("C13")
    path = os.path.join(d, "traces.ndjson")
    tlc.write_ndjson(path, traces)
    res = tlc.run_tlc("Compile", env={"CASES": path}, workers=max(2, NCPU - 2), timeout=1800)
    rep.add_tlc(res)
    verdicts = {r["id"]: r for r in res.records if "verdict" in r}
    if len(verdicts) != len(traces):
        raise ToolError("Compile returned %d verdicts for %d traces\n%s" % (len(verdicts), len(traces), res.raw_tail))
    rep.coverage["traces_validated_against_impl"] = len(traces)
    rep.coverage["observations"] = nobs
    rep.coverage["processes"] = nproc
    rep.coverage["distinct_nontrivial"] = len(traces)
    byid = {rq["id"]: rq for rq in reqs}
    for t in traces:
        v = verdicts[t["id"]]
        if v["verdict"] != "accepted":
            rq = byid[t["id"]]
            rep.violation({"prog": rq["prog"], "w": rq["w"], "level": rq["level"], "tlc": v},
                          "compile %s w=%d O%d: %s" % (rq["prog"][:120], rq["w"], rq["level"], v["why"]))
    if traces:
        rep.sample({"id": traces[0]["id"], "events": traces[0]["events"][:6]})
    if slow:
        rep.info("compile requests slower than 5 s (outside the model, not an alarm): %s" % slow[:10])
    # coarse guard for the complexity clause: scaling families
    fam = []
    for n in (40, 80, 160):
        fam.append((n, "+" + "[->+<]>" * n + "."))
    times = []
    for n, prog in fam:
        t0 = time.time()
        pool.simple_requests(hv, [{"op": "compile", "id": "fam%d" % n, "prog": prog, "w": 8, "level": 3, "input": [],
                                   "execute": 0}], nworkers=1, timeout=300.0)
        times.append(round(time.time() - t0, 3))
    rep.coverage["scaling_guard_outside_model"] = {"family": "+[->+<]> x n .", "n": [n for n, _ in fam],
                                                   "seconds": times}
    rep.coverage["rule"] = ("for every (program, width, level 1-3) of the populations plus nesting families of depth "
                            "50..300: printed IR, bytecode (2 registers), JIT bytecode, machine code (three modes), "
                            "create results and the event logs of three consecutive executions of each executor are "
                            "recorded in %d separate processes (fresh hash seeds, shuffled orders, repeated requests); "
                            "TLC (Compile.tla) checks that every key has one artifact across all processes and that "
                            "the n-th execution of an executor equals the first" % nproc)
    rep.assumptions.append("worker processes run with address-space randomisation off (setarch -R): machine code "
                           "embeds the absolute addresses of the three runtime shims")
    rep.assumptions.append("the 'no super-polynomial blow-up' clause is not decided by the model; only a coarse "
                           "scaling guard is reported")
    return rep.finish()


CHECKS = {"C13": c13}
