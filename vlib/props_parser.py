"""C12: Parser.tla - acceptance and error positions, comment insensitivity, no panics."""
import os
import random

from . import bf, pool, tlc
from .common import NCPU, Report, ToolError, build_harness, log, seed, workdir, replay_witness
from .props_bf import population, adjudicate, settle, SCREEN, ALL_CONFIGS, config_runs

CONCRETE = {
    "[": ["["], "]": ["]"],
    "c": list("+-<>.,"),
    "x": list("a #\n\t!0") + ["\r"],
    # multi-byte characters, including ones whose code point is congruent to a command modulo 256
    "y": ["é", "日", "\U0001F600", "ß", "€", "\U00010348", "\u012b", "\u012c", "\u012d", "\u012e", "\u013c", "\u013e",
          "\u015b", "\u015d", "\u4e2b", "\U0001F62E", "\u305b", "\u305d"],
}
COMMENTS = CONCRETE["x"] + CONCRETE["y"]


def c12(tier):
    rep = Report("C12", "model_checking", tier)
    sd = seed()
    rng = random.Random(sd)
    bins = build_harness(("release",))
    hv = bins["release"]
    rw = replay_witness()
    if rw and "src" in rw:
        return replay_c12(rep, hv, rw)
    # 1. the specification enumerates every abstract string up to MAXLEN
    maxlen = 5 if tier == "quick" else 7
    res = tlc.run_tlc("Parser", env={"GEN": 1, "MAXLEN": maxlen, "CASES": "/dev/null"}, workers=8, timeout=1200)
    rep.add_tlc(res)
    strings = [r["s"] for r in res.records if "s" in r]
    if len(strings) != sum(5 ** k for k in range(maxlen + 1)):
        raise ToolError("Parser generation incomplete: %d strings" % len(strings))
    rep.coverage["abstract_strings_enumerated"] = len(strings)
    rep.coverage["exhaustive"] = True
    # nesting families (no-panic clause) and longer random strings
    extra = []
    for depth in [1, 2, 3, 8, 33, 100, 255, 256, 400, 512]:
        extra.append(["["] * depth + ["c"] + ["]"] * depth)
        extra.append(["["] * depth + ["]"] * (depth - 1))
        extra.append(["["] * (depth - 1) + ["y"] + ["]"] * depth)
        extra.append((["[", "x", "c", "]"] * depth) + ["]"])
    for _ in range(300 if tier == "quick" else 5000):
        n = rng.randint(6, 60)
        extra.append([rng.choice("[]cxy[]") for _ in range(n)])
    cases = []
    for k, s in enumerate(strings + extra):
        reps = 1 if k % 5 else 2          # some strings get two different concretisations
        for r in range(reps):
            src = "".join(rng.choice(CONCRETE[a]) for a in s)
            cases.append({"id": "p%d_%d" % (k, r), "s": s, "src": src})
    answers = pool.simple_requests(hv, [{"op": "parse", "id": c["id"], "src": c["src"]} for c in cases], timeout=60.0)
    traces = []
    for c, a in zip(cases, answers):
        if a is None or "answers" not in a:
            ans = [["worker", (a or {}).get("died", "hung"), 0]]
        else:
            ans = a["answers"]
        traces.append({"id": c["id"], "s": c["s"], "answers": ans})
    verdicts = tlc.validate_in_chunks("Parser", traces, rep, "C12", chunk=40000, env={"GEN": 0, "MAXLEN": 0})
    rep.count("traces_validated_against_impl", len(traces))
    nontrivial = 0
    for c, t in zip(cases, traces):
        v = verdicts[c["id"]]
        if "[" in c["s"] or "]" in c["s"]:
            nontrivial += 1
        if v["verdict"] != "accepted":
            bad = [a for a in t["answers"]]
            rep.violation({"src": c["src"], "abstract": c["s"], "answers": t["answers"], "tlc": v},
                          "source %r: front ends answered %s, specification says %s" % (
                              c["src"][:80], bad[:3], v["expected"]))
        elif len(rep.coverage["samples"]) < 4 and len(c["s"]) >= 4 and "y" in c["s"] and v["expected"] != '<<"accept">>':
            rep.sample({"src": c["src"], "abstract": c["s"], "answers": t["answers"][:3], "expected": v["expected"]})
    rep.coverage["distinct_nontrivial"] = nontrivial
    # 2. comment insensitivity: the same program with comment characters interleaved
    per = {"E": 6000, "S": 300, "R": 200, "rnd": 300} if tier == "quick" else \
          {"E": 60000, "S": 4000, "R": 400, "rnd": 4000, "M": 2000}
    base = population(hv, tier, sd, list(per), per)
    rng2 = random.Random(sd + 11)
    commented = []
    for c in base:
        if c["pop"] == "E" and rng2.random() < (0.8 if tier == "quick" else 0.5):
            continue
        chars = list(c["prog"])
        for _ in range(rng2.randint(1, 6)):
            chars.insert(rng2.randint(0, len(chars)), rng2.choice(COMMENTS))
        c2 = dict(c)
        c2["prog"] = "".join(chars)
        c2["id"] = c["id"] + "c"
        commented.append(c2)
    runs_for = lambda c: config_runs({})          # noqa: E731
    ex = bf.execute(hv, commented, runs_for, screen=SCREEN)
    halting = [e for e in ex if e[3].get("refclass") == "halts"]
    rep.count("commented_programs_run", len(halting))
    judged = adjudicate(rep, "C12", bins, "release", halting, name="C12-comments")
    rep.coverage["rule"] = ("(1) every string over the abstract alphabet {[, ], command, 1-byte comment, multi-byte "
                            "comment} up to length %d (enumerated by TLC from Parser.tla), plus nesting families of "
                            "depth 1..512 and random longer strings, concretised with random characters of each "
                            "class and given to ir::Program::parse and to the create functions of the IR "
                            "interpreter, bytecode interpreter and baseline JIT (levels 0 and 2, u8 and u64); the "
                            "(kind, position) answers are validated by TLC against the matcher of Parser.tla; "
                            "(2) programs of the populations with comment characters (incl. 2-4 byte UTF-8) "
                            "inserted at random positions, run on all backends and validated against BF.tla, which "
                            "treats them as no-ops; non-trivial = the string contains a bracket" % maxlen)
    settle(rep, "C12", bins, judged, shrink=False)
    return rep.finish()


def replay_c12(rep, hv, rw):
    a = pool.simple_requests(hv, [{"op": "parse", "id": "r", "src": rw["src"]}], timeout=60.0)[0]
    ans = a["answers"] if a and "answers" in a else [["worker", (a or {}).get("died", "hung"), 0]]
    tr = [{"id": "r", "s": rw["abstract"], "answers": ans}]
    v = tlc.validate_in_chunks("Parser", tr, rep, "C12", env={"GEN": 0, "MAXLEN": 0})["r"]
    rep.count("traces_validated_against_impl", 1)
    if v["verdict"] != "accepted":
        rep.violation({"src": rw["src"], "abstract": rw["abstract"], "answers": ans, "tlc": v},
                      "source %r: front ends answered %s, specification says %s" % (rw["src"][:80], ans[:3], v["expected"]))
    return rep.finish()


CHECKS = {"C12": c12}
