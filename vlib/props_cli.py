"""C16: Cli.tla - the command line runs what it was asked to run."""
import json
import os
import random
import shutil
import subprocess
import tempfile

from . import bf, pool, tlc
from .common import NCPU, Report, ToolError, build_harness, build_hpbf_bin, log, seed, workdir, replay_witness

FILES = {"file:A": ("fA", ",.+."), "file:B": ("fB", "++[>+++<-]>."), "file:U": ("fU", "+[.")}
TEXT = {"code:a": "+++.", "code:b": ",+.", "code:c": ">,[.,]", "code:u": "+[.", "code:d": "++.[>+<]", "missing": "nope",
        "code:w": "+" * 300 + ".",          # its optimised IR / bytecode depends on the cell width
        "junk": "abc",
        "dir": "dD",                        # a directory: can be opened, cannot be read
        "badutf": "fN",                     # a file whose content is not UTF-8: can be opened, cannot be read as text
        "num:0": "0", "num:3": "3", "num:100000": "100000"}
OPTIONS = ["-i8", "-i16", "-i32", "-i64", "-O0", "-O1", "-O2", "-O3", "-O4", "-O5", "--inplace", "--ir-int",
           "--bc-int", "--base-jit", "--print-ir", "--print-bc", "--print-jit-bc", "--print-jit-mc", "--limit",
           "--static", "-f", "-h"]
STDIN = bytes([7, 9, 200, 0, 65, 3])


def _width_probe():
    """A fragment whose output tells the four cell widths apart: it builds 2^8, 2^16 and 2^32 by
    doubling loops and prints, for each, 0 if the value is non-zero and 1 if it wrapped to zero
    (8 bit: 1 1 1, 16 bit: 0 1 1, 32 bit: 0 0 1, 64 bit: 0 0 0).  Its canonical run takes 2^32 steps
    at 64 bit: it is only run on optimising pipelines and judged with BF!Accel."""
    from . import heavy
    b = heavy.B()
    b.const(0, 1)
    cur = 0
    for shift in (8, 8, 16):
        cur = heavy.scale(b, cur, 1 - cur, [16] * (shift // 4))
        b.clear(2)
        b.clear(3)
        b.mulmove(cur, [(2, 1), (3, 1)])
        heavy.flag(b, 2, 5)
        b.mulmove(3, [(cur, 1)])
    return b.text()


TEXT["code:h"] = _width_probe()


def spelling(tok):
    if tok in FILES:
        return FILES[tok][0]
    return TEXT.get(tok, tok)


def balanced(text):
    d = 0
    for ch in text:
        if ch == "[":
            d += 1
        elif ch == "]":
            d -= 1
            if d < 0:
                return False
    return d == 0


def token_file(tokens, path):
    bal, meta = {}, {}
    for t in tokens:
        sp = spelling(t)
        bal[t] = {"text": 1 if balanced(sp) else 0, "file": 1 if (t in FILES and balanced(FILES[t][1])) else 0}
        meta[t] = {"file": 1 if t in FILES else 0, "num": int(sp) if sp.isdigit() else -1}
    with open(path, "w") as f:
        f.write(json.dumps(tokens) + "\n" + json.dumps(bal) + "\n" + json.dumps(meta) + "\n")


def program_text(code):
    out = ""
    for kind, tok in code:
        out += FILES[tok][1] if kind == "file" else spelling(tok)
    return out


def run_binary(binary, argv, scratch):
    stdin_path = os.path.join(scratch, "stdin.bin")
    with open(stdin_path, "wb") as f:
        f.write(STDIN)
    fd = os.open(stdin_path, os.O_RDONLY)
    try:
        p = subprocess.run([binary] + [spelling(t) for t in argv], cwd=scratch, stdin=fd, stdout=subprocess.PIPE,
                           stderr=subprocess.PIPE, timeout=20)
        touched = os.lseek(fd, 0, os.SEEK_CUR) > 0
        return {"exit": p.returncode, "stdout": p.stdout, "stderr": p.stderr, "stdin": 1 if touched else 0}
    except subprocess.TimeoutExpired:
        return {"exit": -99, "stdout": b"", "stderr": b"timeout", "stdin": 0}
    finally:
        os.close(fd)


def c16(tier):
    rep = Report("C16", "model_checking", tier)
    sd = seed()
    rng = random.Random(sd)
    bins = build_harness(("release",))
    hv = bins["release"]
    d = workdir("C16")
    tokens_all = OPTIONS + list(FILES) + list(TEXT)
    # 1. Cli.tla enumerates argument vectors with their expected outcome
    gen = []
    tokpath = os.path.join(d, "tokens.ndjson")
    token_file(tokens_all, tokpath)
    res = tlc.run_tlc("Cli", env={"GEN": 1, "MAXLEN": 2, "TOKENS": tokpath, "CASES": "/dev/null"}, workers=8, timeout=900)
    rep.add_tlc(res)
    gen += [r for r in res.records if "argv" in r]
    exhaustive2 = len(gen)
    # longer vectors over a reduced alphabet (exhaustive to length 3 / 4)
    small = ["-i16", "-O3", "--bc-int", "--print-ir", "--limit", "-f", "num:3", "junk", "file:A", "file:U", "missing",
             "code:b", "code:u", "--static", "-h"]
    # print options x widths x levels on a fragment whose rendering depends on width and level
    # (backend flags included: whichever of them and of the print options comes last decides what happens,
    # and none of them may change the level)
    prt = ["--print-ir", "--print-bc", "--print-jit-bc", "-i16", "-i32", "-i64", "-O0", "-O3", "code:w", "code:b",
           "--inplace", "--bc-int"]
    tp5 = os.path.join(d, "tokens-print.ndjson")
    token_file(prt, tp5)
    res = tlc.run_tlc("Cli", env={"GEN": 1, "MAXLEN": 3 if tier == "quick" else 4, "TOKENS": tp5, "CASES": "/dev/null"},
                      workers=8, timeout=1800)
    rep.add_tlc(res)
    gen += [r for r in res.records if "argv" in r and len(r["argv"]) == (3 if tier == "quick" else 4)
            and r["expected"]["prints"] == 1]
    # the selected width must be the one that runs: a fragment that tells all four widths apart (only
    # optimising pipelines can finish it at 64 bit, so no --inplace / -O0 in this family)
    wid = ["-i8", "-i16", "-i32", "-i64", "--bc-int", "--ir-int", "--base-jit", "-O1", "-O3", "code:h"]
    tpw = os.path.join(d, "tokens-width.ndjson")
    token_file(wid, tpw)
    res = tlc.run_tlc("Cli", env={"GEN": 1, "MAXLEN": 3 if tier == "quick" else 4, "TOKENS": tpw, "CASES": "/dev/null"},
                      workers=8, timeout=1800)
    rep.add_tlc(res)
    widths = [r for r in res.records if "argv" in r and r["argv"].count("code:h") == 1
              and r["expected"]["executes"] == 1 and r["expected"]["defined"] == 1]
    gen += widths
    if tier != "quick":
        small += ["-i64", "--inplace", "--print-jit-bc", "file:B", "code:c"]
    tp2 = os.path.join(d, "tokens-small.ndjson")
    token_file(small, tp2)
    res = tlc.run_tlc("Cli", env={"GEN": 1, "MAXLEN": 3 if tier == "quick" else 4, "TOKENS": tp2, "CASES": "/dev/null"},
                      workers=8, timeout=1800)
    rep.add_tlc(res)
    longer = [r for r in res.records if "argv" in r and len(r["argv"]) >= 3]
    rng.shuffle(longer)
    gen += longer[: (2500 if tier == "quick" else 40000)]
    # every vector up to length 4 (thorough: 5) over the file-handling tokens
    tiny = ["-f", "missing", "file:A", "file:U", "code:b", "--print-ir", "dir", "badutf"]
    tp3 = os.path.join(d, "tokens-tiny.ndjson")
    token_file(tiny, tp3)
    res = tlc.run_tlc("Cli", env={"GEN": 1, "MAXLEN": 4 if tier == "quick" else 5, "TOKENS": tp3, "CASES": "/dev/null"},
                      workers=8, timeout=1800)
    rep.add_tlc(res)
    files4 = [r for r in res.records if "argv" in r and len(r["argv"]) >= 3]
    gen += files4
    # a divergent program can only come back through --limit: every order of the limit / static / backend flags
    lim = ["--limit", "num:3", "--static", "code:d", "--bc-int", "--inplace"]
    tp4 = os.path.join(d, "tokens-limit.ndjson")
    token_file(lim, tp4)
    res = tlc.run_tlc("Cli", env={"GEN": 1, "MAXLEN": 4 if tier == "quick" else 5, "TOKENS": tp4, "CASES": "/dev/null"},
                      workers=8, timeout=1800)
    rep.add_tlc(res)
    limited = [r for r in res.records if "argv" in r and "code:d" in r["argv"]
               and any(x == ["text", "code:d"] for x in r["expected"]["code"])
               and r["expected"]["limit"] >= 0 and r["expected"]["executes"] == 1]
    gen += limited
    # (a vector that runs the divergent fragment without a limit is never executed: it cannot come back)
    gen = [g for g in gen if not (any(x == ["text", "code:d"] for x in g["expected"]["code"])
                                  and g["expected"]["executes"] == 1 and g["expected"]["limit"] < 0)]
    rep.coverage["argv_enumerated"] = {"length_3plus_over_%d_file_tokens" % len(tiny): len(files4),
                                       "limited_runs_of_a_divergent_program": len(limited),"all_of_length_le_2_over_%d_tokens" % len(tokens_all): exhaustive2,
                                       "length_3plus_over_%d_tokens" % len(small): len(longer)}
    rw = replay_witness()
    if rw and "abstract_argv" in rw:
        gen = [g for g in gen if g["argv"] == rw["abstract_argv"]][:1]
    # 2. run the real binary (both profiles)
    scratch = tempfile.mkdtemp(prefix="cli-", dir=d)
    for name, (fn, text) in FILES.items():
        open(os.path.join(scratch, fn), "w").write(text)
    os.mkdir(os.path.join(scratch, TEXT["dir"]))
    open(os.path.join(scratch, TEXT["badutf"]), "wb").write(b"+\xe9.")
    cases, bftraces = [], []
    render_reqs = {}
    profiles = ["debug"] if tier == "quick" else ["debug", "release"]
    binaries = {p: build_hpbf_bin(p) for p in profiles}
    for k, g in enumerate(gen):
        prof = profiles[k % len(profiles)]
        obs = run_binary(binaries[prof], g["argv"], scratch)
        e = g["expected"]
        cid = "a%d" % k
        text = program_text(e["code"])
        printok = -1
        if e["prints"] == 1 and e["kind"] != "print-jit-mc" and e["defined"] == 1:
            kind = {"print-ir": "ir", "print-bc": "bc", "print-jit-bc": "jitbc"}[e["kind"]]
            render_reqs[cid] = {"op": "render", "id": cid, "kind": kind, "prog": text, "w": e["bits"], "level": e["opt"]}
        cases.append({"id": cid, "argv": g["argv"], "expected": e, "text": text, "prof": prof, "raw": obs,
                      "obs": {"exit": obs["exit"], "stderr": 1 if obs["stderr"] else 0, "stdin": obs["stdin"],
                              "stdout": 1 if obs["stdout"] else 0, "printok": printok}})
        if e["executes"] == 1 and e["defined"] == 1 and obs["exit"] == 0:
            claim = "unfinished" if e["limit"] >= 0 else "complete"
            bftraces.append({"id": cid, "prog": list(text), "w": e["bits"], "input": list(STDIN), "outFail": -1,
                             "inFail": -1, "inAbsent": 0, "outAbsent": 0, "inSilent": 1,
                             "log": [["out", b] for b in obs["stdout"]], "claim": claim, "mustFinish": 0,
                             "detail": "", "refused": 0, "accel": 1 if "code:h" in g["argv"] else 0})
    if render_reqs:
        ans = pool.simple_requests(hv, list(render_reqs.values()), timeout=60.0)
        byid = {c["id"]: c for c in cases}
        for rq, a in zip(render_reqs.values(), ans):
            c = byid[rq["id"]]
            if a and "text" in a:
                c["obs"]["printok"] = 1 if c["raw"]["stdout"].decode(errors="replace") == a["text"] + "\n" else 0
    shutil.rmtree(scratch, ignore_errors=True)
    # 3. Cli.tla judges exit status / diagnostics / stdin / print options
    path = os.path.join(d, "cases.ndjson")
    tlc.write_ndjson(path, [{"id": c["id"], "argv": c["argv"], "obs": c["obs"]} for c in cases])
    res = tlc.run_tlc("Cli", env={"GEN": 0, "MAXLEN": 0, "TOKENS": tokpath, "CASES": path},
                      workers=max(2, NCPU - 2), timeout=1800)
    rep.add_tlc(res)
    verdicts = {r["id"]: r for r in res.records if "verdict" in r}
    if len(verdicts) != len(cases):
        raise ToolError("Cli validation returned %d verdicts for %d runs\n%s" % (len(verdicts), len(cases), res.raw_tail))
    rep.count("traces_validated_against_impl", len(cases))
    for c in cases:
        v = verdicts[c["id"]]
        if v["verdict"].startswith("rejected"):
            rep.violation({"argv": [spelling(t) for t in c["argv"]], "abstract_argv": c["argv"], "profile": c["prof"],
                           "observed": c["obs"], "tlc": v["verdict"], "expected": c["expected"]},
                          "hpbf %s -> %s (observed %s)" % (" ".join(spelling(t) for t in c["argv"]), v["verdict"], c["obs"]))
        elif v["verdict"] == "accepted" and len(rep.coverage["samples"]) < 4 and len(c["argv"]) >= 3:
            rep.sample({"argv": [spelling(t) for t in c["argv"]], "observed": c["obs"], "expected": c["expected"]})
    # 4. BF.tla judges what was written to stdout
    bv = bf.validate(bftraces, rep, "C16-stdout") if bftraces else {}
    byid = {c["id"]: c for c in cases}
    for t in bftraces:
        v = bv[t["id"]]
        c = byid[t["id"]]
        if v["verdict"] == "rejected":
            rep.violation({"argv": [spelling(x) for x in c["argv"]], "abstract_argv": c["argv"], "program": c["text"],
                           "w": c["expected"]["bits"],
                           "stdout": list(c["raw"]["stdout"]), "tlc": v},
                          "hpbf %s: stdout is not the canonical output of %r at %d bit: %s" % (
                              " ".join(spelling(x) for x in c["argv"]), c["text"], c["expected"]["bits"], v["why"]))
    rep.coverage["distinct_nontrivial"] = sum(1 for c in cases if len(c["expected"]["code"]) >= 1)
    rep.coverage["executed_runs_validated_by_BFTrace"] = len(bftraces)
    rep.coverage["rule"] = ("argument vectors: every vector of length <= 2 over the full token alphabet and every "
                            "vector of length 3 (thorough: 4) over a reduced alphabet, enumerated with their expected "
                            "outcome by TLC from Cli.tla (sampled above 2 500 / 40 000); the real binary runs in a "
                            "scratch directory with stdin from a regular file; Cli.tla judges exit status, presence "
                            "of a diagnostic, whether stdin was touched, and - for print options - equality with the "
                            "library's rendering at the selected width and level; BF.tla judges stdout of executed "
                            "runs (input requests are unobservable and silent)")
    rep.assumptions.append("input requests of the binary are not observable individually (stdin is buffered): only "
                           "'touched or not' is recorded")
    return rep.finish()


CHECKS = {"C16": c16}
