"""C18: SmallVec.tla - the inline small vector against the vector model, drop ledger."""
import itertools
import os
import random

from . import pool, tlc
from .common import NCPU, Report, ToolError, build_harness, log, seed, workdir, replay_witness


def call(op, a=0, b=0, vals=()):
    return {"op": op, "a": a, "b": b, "vals": list(vals)}


def finish(calls, live_v, live_i):
    """Every history ends by dropping what is still alive, so that exactly-once can be judged."""
    for i in sorted(live_i):
        calls.append(call("dropiter", i))
    for v in sorted(live_v):
        calls.append(call("drop", v))
    return calls


def random_history(rng, n, length):
    calls, lens = [], {}
    live_i = {}
    nv = 0
    ni = 100

    def newvec():
        nonlocal nv
        nv += 1
        return nv

    v = newvec()
    if rng.random() < 0.3:
        calls.append(call("withcap", v, rng.choice([0, 1, 2, 3, 5])))
    else:
        calls.append(call("new", v))
    lens[v] = 0
    for _ in range(length):
        if not lens:
            v = newvec()
            calls.append(call("new", v))
            lens[v] = 0
        v = rng.choice(list(lens))
        k = rng.random()
        if k < 0.28:
            calls.append(call("push", v, vals=[rng.randint(0, 3)]))
            lens[v] += 1
        elif k < 0.34:
            xs = [rng.randint(0, 3) for _ in range(rng.randint(0, 4))]
            calls.append(call("extend", v, vals=xs))
            lens[v] += len(xs)
        elif k < 0.38:
            calls.append(call("clear", v))
            lens[v] = 0
        elif k < 0.48:
            calls.append(call("retain", v, vals=rng.sample(range(4), rng.randint(0, 4))))
            lens[v] = None
        elif k < 0.56:
            calls.append(call("retainmut", v, rng.randint(0, 3), vals=rng.sample(range(4), rng.randint(0, 4))))
            lens[v] = None
        elif k < 0.64:
            calls.append(call("dedup", v))
            lens[v] = None
        elif k < 0.70:
            calls.append(call("sort", v))
        elif k < 0.77 and len(lens) < 3:
            v2 = newvec()
            calls.append(call("clone", v, v2))
            lens[v2] = lens[v]
        elif k < 0.82:
            calls.append(call("eq", v, rng.choice(list(lens))))
        elif k < 0.86:
            calls.append(call("cmp", v, rng.choice(list(lens))))
        elif k < 0.90:
            calls.append(call("iter", v))
        elif k < 0.95 and not live_i:
            ni += 1
            calls.append(call("intoiter", v, ni))
            del lens[v]
            live_i[ni] = True
            for _ in range(rng.randint(0, 4)):        # consume a few, maybe abandon midway
                calls.append(call("next", ni))
            if rng.random() < 0.7:
                calls.append(call("dropiter", ni))
                del live_i[ni]
        elif live_i:
            i = rng.choice(list(live_i))
            calls.append(call("next", i))
        # lengths become unknown after filters; views carry the truth, the driver only needs liveness
        for key in list(lens):
            if lens[key] is None:
                lens[key] = 0
    return finish(calls, lens, live_i)


def short_histories():
    """All sequences of four operations from a reduced alphabet on one vector (then drop)."""
    alpha = [call("push", 1, vals=[0]), call("push", 1, vals=[1]), call("retain", 1, vals=[1]),
             call("retain", 1, vals=[]), call("dedup", 1), call("clear", 1), call("retainmut", 1, 1, vals=[1, 2]),
             call("sort", 1)]
    out = []
    for seq in itertools.product(alpha, repeat=4):
        out.append(finish([call("new", 1)] + [dict(c) for c in seq], {1: 0}, {}))
    # by-value iteration abandoned at every point, around the inline/heap boundary
    for size in range(0, 5):
        for taken in range(0, size + 2):
            calls = [call("new", 1)] + [call("push", 1, vals=[k % 4]) for k in range(size)]
            calls.append(call("intoiter", 1, 101))
            calls += [call("next", 101) for _ in range(taken)]
            calls.append(call("dropiter", 101))
            out.append(calls)
    return out


def design_check(rep, tier):
    """MCSmallVec.tla: the implementation-level model (size discriminant, inline slots, heap,
    compaction loops as coded) refines the vector model and drops exactly once."""
    depth = 7 if tier == "quick" else 9
    info = {}
    for n in (1, 2):
        res = tlc.run_tlc("MCSmallVec", env={"N": n, "DEPTH": depth, "LEAK": 0, "GEN": 0}, workers=8,
                          timeout=1800, allow_violation=True)
        rep.add_tlc(res)
        info["N=%d" % n] = {"depth": depth, "distinct_states": res.distinct}
        if res.violated:
            raise ToolError("MCSmallVec (N=%d): the implementation-level model violates %s\n%s" % (
                n, res.violated, res.raw_tail))
    rep.coverage["design_check"] = dict(info, invariants=["ContentsAgree", "IterAgrees", "NoBadAccess", "AtMostOnce",
                                                          "NoDropWhileReachable", "ExactlyOnce"])


def tlc_histories(rep, tier):
    """Behaviours generated by the implementation-level model (every complete history up to
    a depth bound: BFS without VIEW), converted to calls on vector 1 / iterator 101."""
    out = []
    depth = 5 if tier == "quick" else 6
    for n in (1, 2):
        res = tlc.run_tlc("MCSmallVec", cfg="MCSmallVecGen", env={"N": n, "DEPTH": depth, "LEAK": 0, "GEN": 1},
                          workers=8, timeout=1800)
        rep.add_tlc(res)
        for r in res.records:
            if "hist" not in r:
                continue
            calls = [call("new", 1)]
            for h in r["hist"]:
                op = h[0]
                if op == "push":
                    calls.append(call("push", 1, vals=[h[1]]))
                elif op == "retain":
                    calls.append(call("retain", 1, vals=list(h[1])))
                elif op in ("clear", "dedup", "drop"):
                    calls.append(call(op, 1))
                elif op == "intoiter":
                    calls.append(call("intoiter", 1, 101))
                elif op == "next":
                    calls.append(call("next", 101))
                elif op == "dropiter":
                    calls.append(call("dropiter", 101))
            out.append((n, calls))
    rep.coverage["tlc_generated_histories"] = {"depth": depth, "count": len(out)}
    return out


def c18(tier):
    rep = Report("C18", "model_checking", tier)
    sd = seed()
    rng = random.Random(sd)
    bins = build_harness(("release",))
    hv = bins["release"]
    rw = replay_witness()
    hists = []
    if rw:
        live_v = {c["a"] for c in rw["calls"] if c["op"] in ("new", "withcap")} | {c["b"] for c in rw["calls"] if c["op"] == "clone"}
        live_v -= {c["a"] for c in rw["calls"] if c["op"] in ("drop", "intoiter")}
        live_i = {c["b"] for c in rw["calls"] if c["op"] == "intoiter"} - {c["a"] for c in rw["calls"] if c["op"] == "dropiter"}
        hists.append((rw["n"], rw["elem"], finish(list(rw["calls"]), live_v, live_i)))
    else:
        design_check(rep, tier)
        for n, calls in tlc_histories(rep, tier):
            hists.append((n, "tracked", calls))
    for h in ([] if rw else short_histories()):
        for n in (1, 2):
            hists.append((n, "tracked", h))
    nrand, length = (1500, 30) if tier == "quick" else (30000, 60)
    for k in range(0 if rw else nrand):
        hists.append((1 + k % 2, "tracked" if k % 4 else "plain", random_history(rng, 1 + k % 2, length)))
    reqs = [{"op": "sv", "id": "s%d" % i, "n": n, "elem": el, "calls": calls} for i, (n, el, calls) in enumerate(hists)]
    answers = pool.simple_requests(hv, reqs, timeout=60.0)
    traces = []
    for rq, a in zip(reqs, answers):
        if a is None or "events" not in a:
            traces.append({"id": rq["id"], "events": [], "end": (a or {}).get("died", "hung"), "ledger": 1})
        else:
            traces.append({"id": rq["id"], "events": a["events"], "end": a["end"],
                           "ledger": 1 if rq["elem"] == "tracked" else 0})
    verdicts = tlc.validate_in_chunks("SmallVec", traces, rep, "C18", chunk=6000)
    rep.count("traces_validated_against_impl", len(traces))
    nontrivial = 0
    for rq, t in zip(reqs, traces):
        v = verdicts[rq["id"]]
        crossed = any(len(view[1]) > rq["n"] for e in t["events"] for view in e["views"])
        if crossed:
            nontrivial += 1
        if v["verdict"] != "accepted":
            rep.violation({"n": rq["n"], "elem": rq["elem"], "calls": rq["calls"][: v["pos"]], "tlc": v},
                          "SmallVec<%s,%d> history rejected at call %d: %s" % (rq["elem"], rq["n"], v["pos"], v["why"]))
        elif len(rep.coverage["samples"]) < 3 and crossed and len(rq["calls"]) > 8:
            rep.sample({"n": rq["n"], "elem": rq["elem"], "calls": rq["calls"][:10], "tlc": v["why"]})
    rep.coverage["distinct_nontrivial"] = nontrivial
    rep.coverage["evaluations"] = len(traces)
    rep.coverage["rule"] = ("histories: every sequence of four operations over {push 0, push 1, retain, retain none, "
                            "dedup, clear, retain_mut, sort} and every abandon point of a by-value iterator for "
                            "sizes 0..4, for N = 1 and 2, plus seeded random histories over push/extend/clear/"
                            "retain/retain_mut/dedup/sort/clone/eq/cmp/iter/into_iter/next/drop with up to three "
                            "live vectors, element types with (ledger) and without destructor; replayed on "
                            "hpbf::verif::SmallVec and validated call by call by TLC (SmallVec.tla): slice views, "
                            "results, no double drop, no drop while reachable, and every identity dropped once "
                            "everything is gone; non-trivial = some vector exceeded the inline capacity")
    return rep.finish()


CHECKS = {"C18": c18}
