"""C11: BCStatic.tla on the bytecode the executors hold (hook H1)."""
import os
import random

from . import bf, pool, tlc
from .common import NCPU, Report, ToolError, build_harness, log, seed, workdir
from .props_bf import population, override_cases, dev_pops


def strip(ins):
    out = []
    for x in ins:
        if isinstance(x, list) and x and x[0] == "i":
            out.append(["i", 0])
        else:
            out.append(x)
    return out


def form(ins, nregs):
    """Selector form: instruction kind x operand kinds (register / stack temporary, memory, small / large imm)."""
    def k(x):
        if not isinstance(x, list):
            return ""
        if x[0] == "t":
            return "r" if x[1] < nregs else "s"
        if x[0] == "i":
            v = int(x[2])
            if v >= 1 << 63:
                v -= 1 << 64
            return "i" if -2 ** 31 <= v < 2 ** 31 else "I"
        return x[0]
    return ins[0] + ":" + ",".join(k(x) for x in ins[1:] if isinstance(x, list))


def dump_programs(hv, cases, levels=(0, 1, 2, 3)):
    reqs = []
    for c in cases:
        for b in ("bcint", "jit"):
            for l in levels:
                reqs.append({"op": "dumpbc", "id": "%s|%s|%d" % (c["id"], b, l), "prog": c["prog"], "w": c["w"],
                             "level": l, "backend": b})
    ans = pool.simple_requests(hv, reqs, timeout=120.0)
    return reqs, ans


def c11(tier):
    rep = Report("C11", "model_checking", tier)
    sd = seed()
    bins = build_harness(("release",))
    hv = bins["release"]
    per = {"E": 6000, "S": 1500, "N": 600, "R": 300, "rnd": 1500, "L": 500, "T": 300, "M": 800, "W": 1500, "G": 400,
           "I": 200, "U": 1500, "Y": 300} if tier == "quick" \
        else {"E": 60000, "S": 30000, "N": 12000, "R": 400, "rnd": 30000, "L": 8000, "T": 4000, "M": 15000,
              "W": 30000, "G": 8000, "I": 4000, "U": 30000, "Y": 6000}
    pops, per = dev_pops(["E", "S", "N", "R", "rnd", "L", "T", "M", "W", "G", "I", "U", "Y"], per)
    cases = override_cases() or population(hv, tier, sd, pops, per)
    reqs, ans = dump_programs(hv, cases)
    progs, seen, forms = [], set(), {}
    meta = {}
    ndump = 0
    for rq, a in zip(reqs, ans):
        if a is None or "died" in a or "hung" in a:
            rep.violation({"prog": rq["prog"], "w": rq["w"], "level": rq["level"], "backend": rq["backend"],
                           "observed": a}, "building the executor crashed or hung: %s" % (a,))
            continue
        if "error" in a:
            continue
        ndump += 1
        nregs = 2 if rq["backend"] == "bcint" else 11
        for ins in a["insts"]:
            f = rq["backend"] + ":" + form(ins, nregs)
            forms[f] = forms.get(f, 0) + 1
        key = (a["text"], rq["backend"] == "jit")
        if key in seen:
            continue
        seen.add(key)
        pid = rq["id"]
        meta[pid] = rq
        progs.append({"id": pid, "temps": a["temps"], "min": a["min"], "max": a["max"], "live": a["live"], "nregs": nregs,
                      "insts": [strip(i) for i in a["insts"]]})
    rep.count("bytecode_programs_dumped", ndump)
    rep.count("distinct_bytecode_programs_checked", len(progs))
    rep.coverage["selector_forms_seen"] = len(forms)
    rep.coverage["selector_forms"] = dict(sorted(forms.items(), key=lambda kv: -kv[1])[:400])
    d = workdir("C11")
    verd = {}
    loaded = set()
    CH = 20000
    for k in range(0, len(progs), CH):
        path = os.path.join(d, "progs%d.ndjson" % k)
        tlc.write_ndjson(path, progs[k:k + CH])
        res = tlc.run_tlc("BCStatic", env={"CASES": path}, workers=max(2, NCPU - 2), timeout=1800)
        rep.add_tlc(res)
        for r in res.records:
            if r.get("loaded"):
                loaded.add(r["id"])
            elif "verdict" in r:
                verd.setdefault(r["id"], r)
    if len(loaded) != len(progs):
        raise ToolError("BCStatic loaded %d of %d programs" % (len(loaded), len(progs)))
    rep.coverage["traces_validated_against_impl"] = len(progs)
    rep.coverage["distinct_nontrivial"] = sum(1 for pr in progs if any(i[0] in ("brz", "brnz") for i in pr["insts"])
                                              and pr["temps"] >= 1)
    rep.coverage["rule"] = ("bytecode of BcInterpreter (2 registers, fusion) and BaseJitCompiler (11 registers, no "
                            "fusion) obtained through hook H1 for populations %s x random width x levels 0-3; every "
                            "distinct bytecode program is explored by TLC on all control paths (BCStatic.tla); "
                            "non-trivial = has a branch and at least one temporary" % ",".join(pops))
    for pid, r in verd.items():
        rq = meta[pid]
        rep.violation({"prog": rq["prog"], "w": rq["w"], "level": rq["level"], "backend": rq["backend"], "tlc": r},
                      "%s O%d w=%d: %s  prog=%s" % (rq["backend"], rq["level"], rq["w"], r["why"], rq["prog"]))
    for pr in progs[:3]:
        rep.sample({"id": pr["id"], "prog": meta[pr["id"]]["prog"], "temps": pr["temps"], "window": [pr["min"], pr["max"]],
                    "insts": pr["insts"][:8]})
    return rep.finish()


CHECKS = {"C11": c11}
