"""Shared plumbing of the check driver: building the harness from /repo's
current working tree, evidence files, known findings, violation reports."""
import hashlib
import json
import os
import subprocess
import sys
import time

VERIF = os.path.dirname(os.path.dirname(os.path.abspath(__file__)))
REPO = os.environ.get("VERIF_REPO", "/repo")
HARNESS = os.path.join(VERIF, "harness")
EVIDENCE = os.path.join(VERIF, "evidence")
REPLAYS = os.path.join(VERIF, "replays")
WORK = os.path.join(VERIF, "work")
NCPU = os.cpu_count() or 4


class ToolError(Exception):
    """Something in the machinery failed; exit status 2, never a violation."""


def seed():
    try:
        return int(os.environ.get("VERIF_SEED", "1"))
    except ValueError:
        return 1


def log(*a):
    print(*a, file=sys.stderr, flush=True)


def workdir(name):
    d = os.path.join(WORK, name)
    os.makedirs(d, exist_ok=True)
    return d


_built = {}


def build_harness(profiles=("release", "debug")):
    """Rebuilds the harness (and with it hpbf from /repo's working tree, hooks on).
    Returns {profile: path of the hv binary}."""
    out = {}
    for prof in profiles:
        if prof in _built:
            out[prof] = _built[prof]
            continue
        cmd = ["cargo", "build", "--offline", "--quiet"]
        if prof == "release":
            cmd.append("--release")
        env = dict(os.environ)
        env["CARGO_NET_OFFLINE"] = "true"
        t0 = time.time()
        p = subprocess.run(cmd, cwd=HARNESS, env=env, stdout=subprocess.PIPE, stderr=subprocess.STDOUT, text=True)
        if p.returncode != 0 and "error[" not in p.stdout and "error:" not in p.stdout.replace("error: could not compile", ""):
            time.sleep(3)            # not a compile error (e.g. a lock held by another cargo): once more
            p = subprocess.run(cmd, cwd=HARNESS, env=env, stdout=subprocess.PIPE, stderr=subprocess.STDOUT, text=True)
        if p.returncode != 0:
            raise ToolError("harness build (%s) failed:\n%s" % (prof, p.stdout[-4000:]))
        path = os.path.join(HARNESS, "target", prof, "hv")
        if not os.path.exists(path):
            raise ToolError("harness binary missing: " + path)
        log("[build] %s harness in %.1fs" % (prof, time.time() - t0))
        _built[prof] = path
        out[prof] = path
    return out


def build_hpbf_bin(profile="debug"):
    """Builds the hpbf command line binary from /repo's working tree into a
    target directory under /verif/work (so /repo/target is left alone)."""
    tdir = os.path.join(WORK, "repo-target")
    cmd = ["cargo", "build", "--offline", "--quiet", "--bin", "hpbf", "--target-dir", tdir]
    if profile == "release":
        cmd.append("--release")
    p = subprocess.run(cmd, cwd=REPO, stdout=subprocess.PIPE, stderr=subprocess.STDOUT, text=True)
    if p.returncode != 0:
        raise ToolError("hpbf binary build failed:\n" + p.stdout[-4000:])
    return os.path.join(tdir, profile, "hpbf")


def load_known():
    p = os.path.join(VERIF, "known-findings.json")
    if not os.path.exists(p):
        return []
    with open(p) as f:
        d = json.load(f)
    return [x for x in d.get("findings", []) if x.get("status") == "open"]


def matches_known(finding, prop, witness):
    """A known finding names a property and the exact failing history: every key
    of its `match` object must equal the witness' value."""
    if finding.get("property") != prop:
        return False
    for k, v in finding.get("match", {}).items():
        if witness.get(k) != v:
            return False
    return True


def replay_witness():
    """The witness of a replay file (./check <id> --replay <file>), if any."""
    path = os.environ.get("VERIF_REPLAY")
    if not path:
        return None
    with open(path) as f:
        d = json.load(f)
    return d.get("witness", d)


class Report:
    """Collects what a check run covered and found, writes the evidence file and
    the VIOLATION / KNOWN-FINDING lines."""

    def __init__(self, prop, level, tier):
        self.prop = prop
        self.level = level
        self.tier = tier
        self.t0 = time.time()
        self.coverage = {"states": 0, "transitions": 0, "traces_validated_against_impl": 0, "samples": []}
        self.assumptions = []
        self.violations = []      # (witness dict)
        self.known_hits = []
        self.infos = []
        self.known = load_known()

    def add_tlc(self, res):
        self.coverage["states"] += res.distinct
        self.coverage["transitions"] += res.generated
        tl = self.coverage.setdefault("tlc_runs", [])
        tl.append({"distinct": res.distinct, "generated": res.generated, "depth": res.depth,
                   "wall_s": round(res.wall, 1)})

    def count(self, key, n=1):
        self.coverage[key] = self.coverage.get(key, 0) + n

    def sample(self, s, limit=6):
        if len(self.coverage["samples"]) < limit:
            self.coverage["samples"].append(s)

    def info(self, msg):
        self.infos.append(msg)
        log("INFO " + msg)

    def violation(self, witness, what):
        """witness: JSON-able dict that identifies the failing input/history."""
        for k in self.known:
            if matches_known(k, self.prop, witness):
                if k not in self.known_hits:
                    self.known_hits.append(k)
                    print("KNOWN-FINDING: property=%s %s" % (self.prop, k.get("what", what)), flush=True)
                return False
        self.violations.append({"witness": witness, "what": what})
        return True

    def finish(self):
        os.makedirs(EVIDENCE, exist_ok=True)
        os.makedirs(REPLAYS, exist_ok=True)
        rc = 0
        reported = set()
        for v in self.violations:
            blob = json.dumps(v, sort_keys=True)
            h = hashlib.sha1(blob.encode()).hexdigest()[:12]
            path = os.path.join(REPLAYS, "%s-%s.json" % (self.prop, h))
            with open(path, "w") as f:
                json.dump({"property": self.prop, "what": v["what"], "witness": v["witness"]}, f, indent=1)
            if len(reported) < 25:
                print("VIOLATION property=%s replay=%s" % (self.prop, path), flush=True)
                log("  " + v["what"][:400])
            reported.add(path)
            rc = 1
        cov = self.coverage
        if cov.get("states", 0) < 1:
            cov["states"] = 0
        ev = {
            "property_id": self.prop,
            "tier": self.tier,
            "seed": seed(),
            "level": self.level,
            "coverage": cov,
            "assumptions": self.assumptions,
            "wall_s": round(time.time() - self.t0, 1),
            "violations": len(self.violations),
        }
        if self.infos:
            ev["coverage"]["infos"] = self.infos[:50]
        if self.known_hits:
            ev["coverage"]["known_findings_reproduced"] = [k.get("what") for k in self.known_hits]
        if not os.environ.get("VERIF_NO_EVIDENCE"):       # replays do not overwrite the evidence
            with open(os.path.join(EVIDENCE, self.prop + ".json"), "w") as f:
                json.dump(ev, f, indent=1)
        log("[%s] %s tier done in %.1fs: %d violation(s), %d known finding(s)" % (
            self.prop, self.tier, time.time() - self.t0, len(self.violations), len(self.known_hits)))
        return rc
