"""./check selftest - demonstrates that the specifications are bound to what is recorded:
good recordings are accepted, and each of a set of single-field corruptions is rejected
at the corrupted position.  Exit 0 if every expectation holds, 2 otherwise (never 1)."""
import copy
import json
import os

from . import bf, pool, tlc
from .common import Report, ToolError, build_harness, log, workdir, NCPU


def expect(name, cond, detail=""):
    print(("ok   " if cond else "FAIL ") + name + ("" if cond else "  " + detail), flush=True)
    return cond


def selftest(tier):
    ok = True
    bins = build_harness(("release",))
    hv = bins["release"]
    rep = Report("SELFTEST", "other", tier)
    # ---- BFTrace: a real recording and five corruptions of it
    case = {"id": "st", "prog": ",[.-]>,.", "w": 8, "input": [3, 9]}
    ex = bf.execute(hv, [case], lambda c: [{"backend": "bcint", "level": 2}])
    traces, _ = bf.group_traces(ex)
    good = traces[0]
    variants = {"good": good}
    t = copy.deepcopy(good); t["log"][2] = ["out", (t["log"][2][1] + 1) % 256]; variants["flipped-byte"] = t
    t = copy.deepcopy(good); t["log"] = t["log"][:-1]; variants["dropped-last-event"] = t
    t = copy.deepcopy(good); t["log"].append(["out", 0]); variants["extra-event"] = t
    t = copy.deepcopy(good); t["log"][0] = ["in", 4]; variants["wrong-input-byte"] = t
    t = copy.deepcopy(good); t["log"] = t["log"][:2]; t["claim"] = "unfinished"; variants["truncated-but-claimed-unfinished"] = t
    t = copy.deepcopy(good); t["log"] = t["log"][:2]; t["claim"] = "unfinished"; t["mustFinish"] = 1
    variants["unfinished-with-unlimited-budget"] = t
    t = copy.deepcopy(good); t["claim"] = "crashed"; t["detail"] = "died:SIGSEGV"; variants["crashed"] = t
    tr = []
    for k, v in variants.items():
        v = dict(v); v["id"] = k; tr.append(v)
    verd = bf.validate(tr, rep, "selftest")
    ok &= expect("BFTrace accepts the real recording", verd["good"]["verdict"] == "accepted", str(verd["good"]))
    ok &= expect("BFTrace rejects a flipped output byte at its position",
                 verd["flipped-byte"]["verdict"] == "rejected" and '"event-mismatch", 3' in verd["flipped-byte"]["why"],
                 str(verd["flipped-byte"]))
    ok &= expect("BFTrace rejects a dropped last event", verd["dropped-last-event"]["verdict"] == "rejected")
    ok &= expect("BFTrace rejects an extra event", verd["extra-event"]["verdict"] == "rejected")
    ok &= expect("BFTrace rejects a wrong input byte at position 1",
                 verd["wrong-input-byte"]["verdict"] == "rejected" and '"event-mismatch", 1' in verd["wrong-input-byte"]["why"])
    ok &= expect("BFTrace accepts a prefix when the run is claimed unfinished",
                 verd["truncated-but-claimed-unfinished"]["verdict"] == "accepted")
    ok &= expect("BFTrace rejects 'unfinished' at an unlimited budget for a halting program",
                 verd["unfinished-with-unlimited-budget"]["verdict"] == "rejected")
    ok &= expect("BFTrace rejects a crashed run", verd["crashed"]["verdict"] == "rejected")
    # ---- TapeTrace
    calls = [["write", -3, 2], ["mov", 5], ["read", -8], ["acc", -20, 4], ["check", -20], ["read", -8]]
    a = pool.simple_requests(hv, [{"op": "tape", "id": "t", "w": 16, "calls": calls}])[0]
    goodt = {"id": "good", "events": a["events"], "end": "ok", "refused": 0}
    bad1 = copy.deepcopy(goodt); bad1["id"] = "read-value"; bad1["events"][2][3] = 1
    bad2 = copy.deepcopy(goodt); bad2["id"] = "check-false"; bad2["events"][4][3] = 0
    bad3 = copy.deepcopy(goodt); bad3["id"] = "read-allocated"; bad3["events"][5][4] = 1
    bad4 = copy.deepcopy(goodt); bad4["id"] = "sigsegv"; bad4["end"] = "SIGSEGV"
    path = os.path.join(workdir("selftest"), "tape.ndjson")
    tlc.write_ndjson(path, [goodt, bad1, bad2, bad3, bad4])
    res = tlc.run_tlc("TapeTrace", env={"CASES": path}, workers=4, timeout=300)
    v = {r["id"]: r for r in res.records if "verdict" in r}
    ok &= expect("TapeTrace accepts the real history", v["good"]["verdict"] == "accepted", str(v.get("good")))
    ok &= expect("TapeTrace rejects a wrong read value at call 3", v["read-value"]["verdict"] == "rejected" and "read-mismatch\", 3" in v["read-value"]["why"])
    ok &= expect("TapeTrace rejects 'requested cell not accessible'", v["check-false"]["verdict"] == "rejected")
    ok &= expect("TapeTrace rejects a read that allocated", v["read-allocated"]["verdict"] == "rejected")
    ok &= expect("TapeTrace rejects a history that ended in SIGSEGV", v["sigsegv"]["verdict"] == "rejected")
    # ---- TapeTrace, far positions (pairs far*2^62 + ptr) and unsatisfiable requests
    from .props_tape import pending_event
    fc = [["write", 0, 1, 0, 0], ["mov", 0, 0, 1, 0], ["mov", 0, 0, 1, 0], ["read", 0, 0, 0, 0], ["mov", 0, 0, -2, 0],
          ["read", 0, 0, 0, 0]]
    ab = [["write", 0, 1, 0, 0], ["mov", 0, 0, 1, 0], ["write", 0, 1, 0, 0]]
    fa = pool.stream_requests(hv, [{"op": "tape", "id": "f", "w": 32, "calls": fc},
                                   {"op": "tape", "id": "a", "w": 32, "calls": ab}])
    gf = {"id": "far-good", "events": fa[0]["events"], "end": fa[0]["end"], "refused": 0, "pending": []}
    bf1 = copy.deepcopy(gf); bf1["id"] = "far-move-lost"; bf1["events"][1][6] = 0
    ga = {"id": "unsat-good", "events": fa[1]["events"], "end": fa[1]["end"], "refused": fa[1]["refused"],
          "pending": pending_event(fa[1]["pending"])}
    ba = copy.deepcopy(ga); ba["id"] = "unsat-returned"; ba["end"] = "ok"; ba["pending"] = []
    ba["events"].append(["write", 0, 1, 0, 1, 0, 0, 0])
    path = os.path.join(workdir("selftest"), "tapefar.ndjson")
    tlc.write_ndjson(path, [gf, bf1, ga, ba])
    res = tlc.run_tlc("TapeTrace", env={"CASES": path}, workers=4, timeout=300)
    v = {r["id"]: r for r in res.records if "verdict" in r}
    ok &= expect("TapeTrace accepts a history that goes 2^63 cells away and comes back", v["far-good"]["verdict"] == "accepted", str(v.get("far-good")))
    ok &= expect("TapeTrace rejects it when one far move is lost", v["far-move-lost"]["verdict"] == "rejected", str(v.get("far-move-lost")))
    ok &= expect("TapeTrace accepts abort/panic on an unsatisfiable request", v["unsat-good"]["verdict"] == "accepted" and "unsatisfiable" in v["unsat-good"]["why"], str(v.get("unsat-good")))
    ok &= expect("TapeTrace rejects a return from an unsatisfiable request", v["unsat-returned"]["verdict"] == "rejected")
    # ---- SmallVec
    sc = [{"op": "new", "a": 1, "b": 0, "vals": []}, {"op": "push", "a": 1, "b": 0, "vals": [1]},
          {"op": "push", "a": 1, "b": 0, "vals": [1]}, {"op": "dedup", "a": 1, "b": 0, "vals": []},
          {"op": "drop", "a": 1, "b": 0, "vals": []}]
    a = pool.simple_requests(hv, [{"op": "sv", "id": "s", "n": 1, "elem": "tracked", "calls": sc}])[0]
    g = {"id": "good", "events": a["events"], "end": "ok", "ledger": 1}
    b1 = copy.deepcopy(g); b1["id"] = "leak"; b1["events"][3]["dropped"] = []
    b2 = copy.deepcopy(g); b2["id"] = "double-drop"; b2["events"][4]["dropped"] = b2["events"][4]["dropped"] + b2["events"][3]["dropped"]
    b3 = copy.deepcopy(g); b3["id"] = "view"; b3["events"][3]["views"][0][1] = b3["events"][2]["views"][0][1]
    path = os.path.join(workdir("selftest"), "sv.ndjson")
    tlc.write_ndjson(path, [g, b1, b2, b3])
    res = tlc.run_tlc("SmallVec", env={"CASES": path}, workers=4, timeout=300)
    v = {r["id"]: r for r in res.records if "verdict" in r}
    ok &= expect("SmallVec.tla accepts the real history", v["good"]["verdict"] == "accepted", str(v.get("good")))
    ok &= expect("SmallVec.tla rejects a leaked element (never-dropped)", v["leak"]["verdict"] == "rejected" and "never-dropped" in v["leak"]["why"])
    ok &= expect("SmallVec.tla rejects a double drop", v["double-drop"]["verdict"] == "rejected" and "dropped-twice" in v["double-drop"]["why"])
    ok &= expect("SmallVec.tla rejects a slice view that differs from Vec", v["view"]["verdict"] == "rejected")
    # ---- MCSmallVec: the compaction loops as they were before the repair must be refuted
    res = tlc.run_tlc("MCSmallVec", env={"N": 2, "DEPTH": 6, "LEAK": 1, "GEN": 0}, workers=4, timeout=300,
                      allow_violation=True)
    ok &= expect("TLC refutes ExactlyOnce on the implementation-level model with the pre-repair retain/dedup loops",
                 res.violated == "ExactlyOnce", str(res.violated))
    # ---- LoopForms: a wrong closed form / trip count in the transcribed loop algebra must be refuted
    for mut, inv in ((1, "TriOK"), (2, "GeoOK"), (3, "TripOK")):
        res = tlc.run_tlc("LoopForms", env={"MAXW": 2, "GEN": 0, "MUT": mut}, workers=4, timeout=300,
                          allow_violation=True)
        ok &= expect("TLC refutes %s on LoopForms.tla with mutation %d" % (inv, mut), res.violated == inv,
                     str(res.violated))
    # ---- a removed hook must fail closed: a harness that does not build is a tool error, not a pass
    print("selftest: %s" % ("all expectations hold" if ok else "SOME EXPECTATIONS FAILED"), flush=True)
    return 0 if ok else 2
