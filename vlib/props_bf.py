"""Checks for the properties decided against the canonical machine BF.tla."""
import random

from . import bf
from .common import Report, build_harness, log, seed, ToolError

WIDTHS = [8, 16, 32, 64]
SCREEN = {"maxSteps": 5000, "maxEv": 250}


def population(hv, tier, sd, pops, per_pop):
    """Seeded case population: list of {id,pop,prog,input,w}."""
    rng = random.Random(sd)
    cases = []
    seeds = bf.repo_seed_programs()
    for pop in pops:
        n = per_pop.get(pop, 0)
        if n <= 0:
            continue
        if pop == "R":
            got = []
            for p in seeds:
                for inp in bf.SMALL_INPUTS[:4] + [[126, 109, 108, 107, 32, 122, 121, 120]]:
                    got.append({"pop": "R", "prog": p, "input": inp})
            got = got[:n]
        elif pop == "M":
            got = bf.gen_cases(hv, "M", sd, n, "\n".join(seeds) + "\n")
        else:
            got = bf.gen_cases(hv, pop, sd, n)
        cases += got
    out = []
    for i, c in enumerate(cases):
        c = dict(c)
        c["w"] = rng.choice([64, 64, 64, 64, 64, 32]) if c["pop"] == "L" else rng.choice([8, 8, 16, 32, 64])
        c["id"] = "%s%d" % (c["pop"], i)
        out.append(c)
    return out


def override_cases():
    """VERIF_CASES=<ndjson file of {prog,input,w}> (also set by --replay) replaces
    the generated population."""
    import json
    import os
    path = os.environ.get("VERIF_CASES")
    if not path:
        return None
    out = []
    for i, l in enumerate(open(path)):
        if l.strip():
            c = json.loads(l)
            c = c.get("witness", c)
            out.append({"id": "X%d" % i, "pop": "X", "prog": c["prog"], "input": c.get("input", []),
                        "w": c.get("w", 8)})
    return out


def run_equivalence(prop, tier, backend_runs, pops, per_pop, profiles=("release",), adjudicate_max=3000):
    """Common driver for C01-C04: run cases whose canonical run is short on the
    given configurations, validate every distinct recording with TLC."""
    rep = Report(prop, "model_checking", tier)
    sd = seed()
    import os
    if os.environ.get("VERIF_POPS"):          # development aid: "N=30000,S=0"
        per_pop = {k: int(v) for k, v in (x.split("=") for x in os.environ["VERIF_POPS"].split(","))}
        pops = list(per_pop)
    bins = build_harness(tuple(set(profiles) | {"release"}))
    cases = override_cases() or population(bins["release"], tier, sd, pops, per_pop)
    rep.count("cases_generated", len(cases))
    traces, index = [], {}
    prescreened = 0
    for prof in profiles:
        executed = bf.execute(bins[prof], cases, backend_runs, screen=SCREEN)
        halting = [(c, runs, res, done) for (c, runs, res, done) in executed if done.get("refclass") == "halts"]
        prescreened += sum(len(runs) for (c, runs, res, done) in halting)
        # every disagreeing case goes to TLC; agreeing ones are sampled
        dis = [e for e in halting if not e[3].get("agree")]
        agr = [e for e in halting if e[3].get("agree")]
        rng = random.Random(sd + 17)
        rng.shuffle(agr)
        room = max(0, adjudicate_max // len(profiles) - len(dis))
        chosen = dis[: adjudicate_max] + agr[:room]
        tr, owners = bf.group_traces(chosen, tag=prof[0] + ":")
        for t in tr:
            index[t["id"]] = (prof, owners[t["id"]])
        traces += tr
        bycase = {c["id"]: (c, runs) for (c, runs, res, done) in chosen}
        for t in tr:
            cid = t["id"].split(":", 1)[1].rsplit("#", 1)[0]
            index[t["id"]] = (prof, owners[t["id"]], bycase[cid])
        rep.count("cases_halting_within_caps", len(halting))
        rep.count("cases_with_disagreeing_backends", len(dis))
        nontrivial = sum(1 for e in chosen if e[3].get("iters", 0) >= 1 and e[3].get("refnev", 0) >= 1)
        rep.count("distinct_nontrivial", nontrivial)
    rep.count("prescreened", prescreened)
    rep.coverage["rule"] = ("cases: seeded populations %s, random width; run on %s; a case is non-trivial when its "
                            "canonical run has >= 1 loop iteration and >= 1 event; every distinct recording of a "
                            "chosen case is validated by TLC against BF.tla (BFTrace)" % (
                                ",".join(pops), "/".join(profiles)))
    verdicts = bf.validate(traces, rep, prop)
    tmap = {t["id"]: t for t in traces}
    inconclusive = 0
    rejected = []
    for tid, v in verdicts.items():
        prof, owners, (case, runs) = index[tid]
        t = tmap[tid]
        if v["verdict"] == "rejected":
            rejected.append((case, runs[owners[0]], t, v, prof))
        elif v["verdict"] == "inconclusive":
            inconclusive += 1
        elif len(rep.coverage["samples"]) < 5 and v["steps"] > 20:
            rep.sample({"prog": case["prog"], "w": case["w"], "input": case["input"],
                        "configs": [bf.cfg_name(runs[i]) for i in owners], "log": t["log"][:12],
                        "tlc": v["why"], "canonical_steps": v["steps"]})
    report_rejected(rep, bins, rejected, prop)
    rep.count("inconclusive", inconclusive)
    return rep.finish()


def report_rejected(rep, bins, rejected, prop, max_shrink=12):
    """Rejected recordings become violations.  For readability the first few are
    delta-debugged natively; the shrunk case is reported only if TLC rejects its
    recording as well."""
    from . import pool
    todo = [r for r in rejected if r[2]["claim"] == "complete"][:max_shrink]
    shrunk = {}
    if todo:
        reqs = [{"op": "shrink", "id": "s%d" % i, "prog": c["prog"], "w": c["w"], "input": c["input"], "run": run}
                for i, (c, run, t, v, prof) in enumerate(todo)]
        byprof = {}
        for i, r in enumerate(todo):
            byprof.setdefault(r[4], []).append(i)
        cases2, runs2 = [], {}
        for prof, idxs in byprof.items():
            answers = pool.simple_requests(bins[prof], [reqs[i] for i in idxs], timeout=240.0)
            for i, a in zip(idxs, answers):
                if a and a.get("shrunk") == 1 and len(a["prog"]) < len(todo[i][0]["prog"]):
                    c2 = {"id": "shr%d" % i, "pop": "shrunk", "prog": a["prog"], "w": todo[i][0]["w"],
                          "input": a["input"]}
                    cases2.append((prof, c2))
                    runs2[c2["id"]] = todo[i][1]
        traces2, idx2 = [], {}
        for prof in byprof:
            cs = [c for (p, c) in cases2 if p == prof]
            if not cs:
                continue
            ex = bf.execute(bins[prof], cs, lambda c: [runs2[c["id"]]])
            tr, owners = bf.group_traces(ex, tag=prof[0] + ":")
            for t in tr:
                cid = t["id"].split(":", 1)[1].rsplit("#", 1)[0]
                idx2[t["id"]] = (prof, [c for c in cs if c["id"] == cid][0])
            traces2 += tr
        if traces2:
            v2 = bf.validate(traces2, rep, prop + "-shrunk")
            for t in traces2:
                if v2[t["id"]]["verdict"] == "rejected":
                    prof, c2 = idx2[t["id"]]
                    i = int(c2["id"][3:])
                    shrunk[i] = (c2, runs2[c2["id"]], t, v2[t["id"]], prof)
    for i, (case, run, t, v, prof) in enumerate(rejected):
        if i < len(todo) and todo[i] is rejected[i] and i in shrunk:
            case, run, t, v, prof = shrunk[i]
        rep.violation(bf.witness(case, run, t, v, prof),
                      "%s w=%d %s: %s  prog=%s input=%s" % (
                          bf.cfg_name(run), case["w"], prof, v["why"], case["prog"], case["input"]))


def c04(tier):
    per = {"rnd": 1500, "S": 1500, "T": 300, "R": 300, "M": 600} if tier == "quick" else \
          {"rnd": 20000, "S": 20000, "T": 3000, "R": 400, "M": 8000, "N": 2000}
    return run_equivalence("C04", tier, lambda c: [{"backend": "inplace", "level": 0}],
                           ["rnd", "S", "T", "R", "M", "N"], per,
                           adjudicate_max=3500 if tier == "quick" else 40000)


def c01(tier):
    levels = [0, 1, 2, 3, 4, 7]
    per = {"rnd": 3000, "S": 6000, "R": 300, "M": 2000, "N": 500} if tier == "quick" else \
          {"rnd": 60000, "S": 150000, "R": 400, "M": 40000, "N": 10000}
    return run_equivalence("C01", tier, lambda c: [{"backend": "irint", "level": l} for l in levels],
                           ["rnd", "S", "R", "M", "N"], per,
                           adjudicate_max=3000 if tier == "quick" else 40000)


def c02(tier):
    per = {"rnd": 2000, "S": 4000, "R": 300, "M": 1500, "N": 800, "T": 200} if tier == "quick" else \
          {"rnd": 40000, "S": 100000, "R": 400, "M": 30000, "N": 20000, "T": 2000}
    return run_equivalence("C02", tier, lambda c: [{"backend": "bcint", "level": l} for l in range(4)],
                           ["rnd", "S", "R", "M", "N", "T"], per, profiles=("release", "debug"),
                           adjudicate_max=3000 if tier == "quick" else 40000)


def c03(tier):
    per = {"rnd": 2000, "S": 4000, "R": 300, "M": 1500, "N": 2500, "T": 200} if tier == "quick" else \
          {"rnd": 40000, "S": 100000, "R": 400, "M": 30000, "N": 60000, "T": 2000}
    return run_equivalence("C03", tier, lambda c: [{"backend": "jit", "level": l} for l in range(4)],
                           ["rnd", "S", "R", "M", "N", "T"], per,
                           adjudicate_max=3000 if tier == "quick" else 40000)


CHECKS = {"C01": c01, "C02": c02, "C03": c03, "C04": c04}
