"""Checks for the properties decided against the canonical machine BF.tla."""
import random

from . import bf
from .common import Report, build_harness, log, seed, ToolError

WIDTHS = [8, 16, 32, 64]
SCREEN = {"maxSteps": 5000, "maxEv": 250}


def population(hv, tier, sd, pops, per_pop):
    """Seeded case population: list of {id,pop,prog,input,w}."""
    rng = random.Random(sd)
    cases = []
    seeds = bf.repo_seed_programs()
    for pop in pops:
        n = per_pop.get(pop, 0)
        if n <= 0:
            continue
        if pop == "R":
            got = []
            for p in seeds:
                for inp in bf.SMALL_INPUTS[:4] + [[126, 109, 108, 107, 32, 122, 121, 120]]:
                    got.append({"pop": "R", "prog": p, "input": inp})
            got = got[:n]
        elif pop == "M":
            got = bf.gen_cases(hv, "M", sd, n, "\n".join(seeds) + "\n")
        else:
            got = bf.gen_cases(hv, pop, sd, n)
        cases += got
    out = []
    for i, c in enumerate(cases):
        c = dict(c)
        c["w"] = rng.choice([8, 8, 16, 32, 64])
        c["id"] = "%s%d" % (c["pop"], i)
        out.append(c)
    return out


def run_equivalence(prop, tier, backend_runs, pops, per_pop, profiles=("release",), adjudicate_max=3000):
    """Common driver for C01-C04: run cases whose canonical run is short on the
    given configurations, validate every distinct recording with TLC."""
    rep = Report(prop, "model_checking", tier)
    sd = seed()
    bins = build_harness(tuple(set(profiles) | {"release"}))
    cases = population(bins["release"], tier, sd, pops, per_pop)
    rep.count("cases_generated", len(cases))
    traces, index = [], {}
    prescreened = 0
    for prof in profiles:
        executed = bf.execute(bins[prof], cases, backend_runs, screen=SCREEN)
        halting = [(c, runs, res, done) for (c, runs, res, done) in executed if done.get("refclass") == "halts"]
        prescreened += sum(len(runs) for (c, runs, res, done) in halting)
        # every disagreeing case goes to TLC; agreeing ones are sampled
        dis = [e for e in halting if not e[3].get("agree")]
        agr = [e for e in halting if e[3].get("agree")]
        rng = random.Random(sd + 17)
        rng.shuffle(agr)
        room = max(0, adjudicate_max // len(profiles) - len(dis))
        chosen = dis[: adjudicate_max] + agr[:room]
        tr, owners = bf.group_traces(chosen, tag=prof[0] + ":")
        for t in tr:
            index[t["id"]] = (prof, owners[t["id"]])
        traces += tr
        bycase = {c["id"]: (c, runs) for (c, runs, res, done) in chosen}
        for t in tr:
            cid = t["id"].split(":", 1)[1].rsplit("#", 1)[0]
            index[t["id"]] = (prof, owners[t["id"]], bycase[cid])
        rep.count("cases_halting_within_caps", len(halting))
        rep.count("cases_with_disagreeing_backends", len(dis))
        nontrivial = sum(1 for e in chosen if e[3].get("iters", 0) >= 1 and e[3].get("refnev", 0) >= 1)
        rep.count("distinct_nontrivial", nontrivial)
    rep.count("prescreened", prescreened)
    rep.coverage["rule"] = ("cases: seeded populations %s, random width; run on %s; a case is non-trivial when its "
                            "canonical run has >= 1 loop iteration and >= 1 event; every distinct recording of a "
                            "chosen case is validated by TLC against BF.tla (BFTrace)" % (
                                ",".join(pops), "/".join(profiles)))
    verdicts = bf.validate(traces, rep, prop)
    tmap = {t["id"]: t for t in traces}
    inconclusive = 0
    for tid, v in verdicts.items():
        prof, owners, (case, runs) = index[tid]
        t = tmap[tid]
        if v["verdict"] == "rejected":
            for i in owners[:1]:
                rep.violation(bf.witness(case, runs[i], t, v, prof),
                              "%s w=%d %s: %s  prog=%s input=%s" % (
                                  bf.cfg_name(runs[i]), case["w"], prof, v["why"], case["prog"], case["input"]))
        elif v["verdict"] == "inconclusive":
            inconclusive += 1
        elif len(rep.coverage["samples"]) < 5 and v["steps"] > 20:
            rep.sample({"prog": case["prog"], "w": case["w"], "input": case["input"],
                        "configs": [bf.cfg_name(runs[i]) for i in owners], "log": t["log"][:12],
                        "tlc": v["why"], "canonical_steps": v["steps"]})
    rep.count("inconclusive", inconclusive)
    return rep.finish()


def c04(tier):
    per = {"rnd": 1500, "S": 1500, "T": 300, "R": 300, "M": 600} if tier == "quick" else \
          {"rnd": 20000, "S": 20000, "T": 3000, "R": 400, "M": 8000, "N": 2000}
    return run_equivalence("C04", tier, lambda c: [{"backend": "inplace", "level": 0}],
                           ["rnd", "S", "T", "R", "M", "N"], per,
                           adjudicate_max=3500 if tier == "quick" else 40000)


def c01(tier):
    levels = [0, 1, 2, 3, 4, 7]
    per = {"rnd": 3000, "S": 6000, "R": 300, "M": 2000, "N": 500} if tier == "quick" else \
          {"rnd": 60000, "S": 150000, "R": 400, "M": 40000, "N": 10000}
    return run_equivalence("C01", tier, lambda c: [{"backend": "irint", "level": l} for l in levels],
                           ["rnd", "S", "R", "M", "N"], per,
                           adjudicate_max=3000 if tier == "quick" else 40000)


def c02(tier):
    per = {"rnd": 2000, "S": 4000, "R": 300, "M": 1500, "N": 800, "T": 200} if tier == "quick" else \
          {"rnd": 40000, "S": 100000, "R": 400, "M": 30000, "N": 20000, "T": 2000}
    return run_equivalence("C02", tier, lambda c: [{"backend": "bcint", "level": l} for l in range(4)],
                           ["rnd", "S", "R", "M", "N", "T"], per, profiles=("release", "debug"),
                           adjudicate_max=3000 if tier == "quick" else 40000)


def c03(tier):
    per = {"rnd": 2000, "S": 4000, "R": 300, "M": 1500, "N": 2500, "T": 200} if tier == "quick" else \
          {"rnd": 40000, "S": 100000, "R": 400, "M": 30000, "N": 60000, "T": 2000}
    return run_equivalence("C03", tier, lambda c: [{"backend": "jit", "level": l} for l in range(4)],
                           ["rnd", "S", "R", "M", "N", "T"], per,
                           adjudicate_max=3000 if tier == "quick" else 40000)


CHECKS = {"C01": c01, "C02": c02, "C03": c03, "C04": c04}
