"""Checks for the properties decided against the canonical machine BF.tla
(C01-C08, C10, and the executable half of C17)."""
import json
import os
import random

from . import bf, pool
from .common import replay_witness, Report, build_harness, log, seed, ToolError

WIDTHS = [8, 16, 32, 64]
SCREEN = {"maxSteps": 5000, "maxEv": 250}
UNLIMITED = bf.UNLIMITED

ALL_CONFIGS = [("inplace", 0)] + [(b, l) for b in ("irint", "bcint", "jit") for l in range(4)]


# ------------------------------------------------------------------ populations
def population(hv, tier, sd, pops, per_pop):
    """Seeded case population: list of {id,pop,prog,input,w}."""
    rng = random.Random(sd)
    cases = []
    seeds = bf.repo_seed_programs()
    for pop in pops:
        n = per_pop.get(pop, 0)
        if n <= 0:
            continue
        if pop == "R":
            got = []
            for p in seeds:
                for inp in bf.SMALL_INPUTS[:4] + [[126, 109, 108, 107, 32, 122, 121, 120]]:
                    got.append({"pop": "R", "prog": p, "input": inp})
            got = got[:n]
        elif pop == "M":
            got = bf.gen_cases(hv, "M", sd, n, "\n".join(seeds) + "\n")
        elif pop == "E":
            got = exhaustive_cases(n)
        elif pop == "K":
            got = movers(random.Random(sd * 31 + 5), n)
        elif pop == "P":
            got = long_runs(random.Random(sd * 37 + 3), n)
        elif pop == "Q":
            got = edge_moves(random.Random(sd * 41 + 9), n)
        elif pop == "F":
            got = loopform_cases(n)
        elif pop == "Y":
            got = body_cycles(random.Random(sd * 47 + 13), n)
        elif pop == "U":
            got = far_conditionals(random.Random(sd * 53 + 17), n)
        elif pop == "Z":
            got = padded_programs(random.Random(sd * 59 + 19), n)
        else:
            got = bf.gen_cases(hv, pop, sd, n)
        cases += got
    out = []
    for i, c in enumerate(cases):
        c = dict(c)
        if "w" not in c:
            if c["pop"] == "L":
                c["w"] = rng.choice([64, 64, 64, 64, 64, 32])
            elif c["pop"] == "F":        # nested idioms only finish within the caps when nothing wraps
                c["w"] = rng.choice([8, 8, 8, 16, 32, 64])
            elif c["pop"] == "D":        # wrap-around cycles are only short enough to prove at 8 bit
                c["w"] = rng.choice([8, 8, 8, 8, 8, 8, 16, 32, 64])
            else:
                c["w"] = rng.choice([8, 8, 16, 32, 64])
        c["id"] = "%s%d" % (c["pop"], i)
        out.append(c)
    return out


def edge_moves(rng, n):
    """Population Q: after a scan (so that the optimiser no longer knows where the pointer is) values
    are moved around between a few cells near the pointer - cycles included, which the optimiser turns
    into one parallel assignment - while some of those cells lie outside the part of the tape that has
    been allocated so far and some of the values are zero; then every cell is printed."""
    from .heavy import B
    out = []
    for _ in range(n):
        b = B()
        inputs = [rng.randint(1, 255)]
        k0 = rng.randint(0, 3)
        b.raw(">" * k0 if rng.random() < 0.5 else "")
        b.raw(",")
        scan = rng.choice(["[<]", "[>]", "[<<]", "[>>]"])
        b.raw(scan)
        b.pos = 0                                     # positions are relative to where the scan stopped
        offs = rng.sample(range(-8, 9), rng.randint(3, 5))
        if rng.random() < 0.6:
            offs[0] = 1 if "<" in scan else -1        # the input byte sits next to the stopping cell
        moves = []
        if rng.random() < 0.6:                        # a rotation through all of them
            cyc = offs + [offs[0]]
            tmp = 12 if rng.random() < 0.5 else -12
            moves.append((cyc[-2], tmp))
            for i in range(len(offs) - 2, -1, -1):
                moves.append((cyc[i], cyc[i + 1]))
            moves.append((tmp, cyc[0]))
        else:
            for _ in range(rng.randint(3, 6)):
                a, c = rng.sample(offs, 2)
                moves.append((a, c))
        for a, c in moves:
            b.mulmove(a, [(c, 1)])
        for o in offs:
            b.out(o)
        out.append({"pop": "Q", "prog": b.text(), "input": inputs})
    return out


def body_cycles(rng, n):
    """Population Y: inside the body of a loop or conditional whose cells the optimiser knows nothing about
    (they were read before a scan or come straight from the input of an earlier iteration), values are rotated
    through a cycle of 2-4 cells (one simultaneous assignment once optimised), one of them is touched and
    printed so that the cycle has to be emitted, and then cells are copied onto each other - so that what the
    optimiser remembers about each member of the cycle is compared with values it sees later - and printed."""
    from .heavy import B
    out = []
    for _ in range(n):
        b = B()
        k = rng.randint(2, 4)
        cells = list(range(k))
        t = k                                         # scratch
        extra = k + 1                                 # copy target outside the cycle
        cond = k + 2
        inputs = [rng.randint(1, 15) for _ in range(k)]
        for i in cells:
            b.inp(i)
        mode = rng.randrange(3)
        if mode == 0:                                 # conditional on the first cell itself (cleared at the end)
            b.go(0)
            b.raw("[")
        elif mode == 1:                               # conditional on a separate flag
            b.const(cond, 1)
            b.raw("[")
        else:                                         # a counted loop of 1-3 rounds
            b.const(cond, rng.randint(1, 3))
            b.raw("[")

        def move(src, dst):
            b.mulmove(src, [(dst, 1)])

        def copy(src, dst):
            b.clear(dst)
            b.clear(t)
            b.mulmove(src, [(dst, 1), (t, 1)])
            b.mulmove(t, [(src, 1)])
        rounds = rng.randint(1, 2)
        for _r in range(rounds):
            cyc = rng.sample(cells, rng.randint(2, k))
            b.clear(t)
            move(cyc[0], t)                           # t = c0; c0 = c1; ...; c_last = t
            for a, nx in zip(cyc, cyc[1:]):
                move(nx, a)
            move(t, cyc[-1])
            x = rng.choice(cyc)
            b.go(x)
            b.raw(rng.choice(["+", "-", "++"]))
            if rng.random() < 0.8:
                b.out(x)
            for _c in range(rng.randint(1, 3)):
                src = rng.choice(cells)
                dst = rng.choice([c for c in cells + [extra] if c != src])
                copy(src, dst)
                if rng.random() < 0.7:
                    b.out(dst)
        for i in rng.sample(cells + [extra], rng.randint(1, k)):
            b.out(i)
        if mode == 0:
            b.clear(0)
            b.raw("]")
        elif mode == 1:
            b.clear(cond)
            b.raw("]")
        else:
            b.go(cond)
            b.raw("-]")
        for i in cells + [extra]:
            b.out(i)
        out.append({"pop": "Y", "prog": b.text(), "input": inputs})
    return out


def far_conditionals(rng, n):
    """Population U: loops that the optimiser can prove to run at most once because their body ends in a scan
    or a move onto a cell that is zero - conditionals - whose condition cell nothing else in the program
    touches and that lies further out than every other access (the access window has to contain it because
    of the branch alone); some are taken at run time, most are not."""
    out = []
    for _ in range(n):
        d1 = rng.choice("<>")
        d2 = ">" if d1 == "<" else "<"
        a = rng.randint(1, 6)
        back = rng.randint(0, min(a, 3))
        ops = rng.choice([".", "+.", "-.", ",.", ".+", "", "+"])
        scan = "[" + rng.choice([d1, d1, d2]) * rng.randint(1, 2) + "]"
        ending = rng.choice([scan, scan, d1 * rng.randint(1, 3), scan + d2])
        cond_body = "[" + d2 * back + ops + ending + "]"
        pre = rng.choice([",", ",>,<", "+", ",>+<", ""])
        if rng.random() < 0.25:                       # the condition cell is written once, far away, so it is taken
            pre = d1 * a + "+" + d2 * a + pre
        inner = d1 * a + cond_body + d2 * rng.randint(0, a) + rng.choice([".", "", "+."])
        if rng.random() < 0.6:
            prog = pre + "[" + inner + rng.choice([">,", ",", "[-]", "<,"]) + "]" + "."
        else:
            prog = pre + inner + "."
        out.append({"pop": "U", "prog": prog, "input": [rng.randint(1, 9) for _ in range(rng.randint(0, 3))]})
    return out


def padded_programs(rng, n):
    """Population Z: small looping programs inside more than 64 KiB of non-command text (in front, directly
    behind a '[', inside a loop body, between two loops): positions, jump distances and loop-stack entries
    beyond 16 bits.  The back ends get the padded text, the specification the text without the padding."""
    base = ["++[>+++<-]>.", ",[.,]", "++[>++[>+<-]<-]>>.", "+++[>,.<-]", ",[>+>+<<-]>.>.", "+[>+++[>++<-]<-]>>.",
            "++>+++<[>[>+>+<<-]>>[<<+>>-]<<<-]>>.", ",>,<[>[>+>+<<-]>[<+>-]<<-]>>>."]
    out = []
    for _ in range(n):
        p = rng.choice(base)
        spots = [0] + [i + 1 for i, ch in enumerate(p) if ch in "[]"] + [i for i, ch in enumerate(p) if ch == "]"]
        out.append({"pop": "Z", "prog": p, "input": [rng.randint(1, 5) for _ in range(3)],
                    "pad": rng.choice([65530, 65536, 65540, 70000, 131072, 200000]), "padAt": rng.choice(spots)})
    return out


def long_runs(rng, n):
    """Population P: uninterrupted runs of 255..1100 identical + - > < characters (an interpreter that
    folds runs must fold them modulo 2^width, not modulo 256), with the bits above the low byte made
    observable through a zero test."""
    out = []
    lens = [255, 256, 257, 300, 511, 512, 513, 768, 1024, 1100]
    for _ in range(n):
        k = rng.choice(lens)
        form = rng.randrange(5)
        test = "[>+.<[-]]>."                     # prints 1 if the cell is non-zero, then cell+1 either way
        if form == 0:
            prog = "+" * k + test
        elif form == 1:
            prog = "-" * k + "+" * k + test
        elif form == 2:
            prog = "-" * k + "+" * (k - rng.choice([1, 2, 256])) + "+" * rng.choice([0, 1, 2]) + ".[[-]>+.<]>."
        elif form == 3:
            prog = ">" * k + "+." + "<" * k + ",." + ">" * k + "."
        elif form == 4:
            prog = "," + "+" * k + "." + test
        if rng.random() < 0.35:
            if rng.random() < 0.5:       # a countdown through a multiple of 256, one byte per iteration
                prog = "+" * rng.randint(257, 290) + "[.-]" + "+."
            else:                        # a wide cell cleared from a multiple of 256, then tested
                prog = "+" * (256 * rng.randint(1, 4)) + "[-]" + ">+<[>-<[-]]>."
        out.append({"pop": "P", "prog": prog, "input": [rng.choice([0, 1, 200, 255])]})
    return out


def movers(rng, n):
    """Population K: short programs that are mostly pointer moves inside loops which run zero times
    or once - the declared access window and the loop's shift are large compared with the program
    length and with the pointer excursion of the run (the margin of C10 is the program length)."""
    out = []
    for _ in range(n):
        d = rng.choice("<>")
        r = "<" if d == ">" else ">"
        k = rng.randint(1, 24)
        op = rng.choice([".", ".", "+.", ",", "-.", "", ".+"])
        form = rng.randrange(5)
        if form == 0:
            body = d * k + op
        elif form == 1:
            body = d * k + op + r * rng.randint(0, k)
        elif form == 2:
            body = d * k + "[" + d * rng.randint(1, 8) + op + "]" + op
        elif form == 3:
            body = op + d * k
        else:
            body = d * rng.randint(1, 6) + op + d * k + op
        src, inp = rng.choice([(",", [0]), (",", [1]), (",", [2]), ("", []), ("+", []), (",", []), ("-", [])])
        tail = rng.choice(["", ".", "+.", d + ".", r + "+."])
        prog = src + "[" + body + "]" + tail
        if rng.random() < 0.3:
            prog += "," + "[" + r * rng.randint(1, 12) + ".]" + "."
            inp = inp + [rng.choice([0, 1])]
        out.append({"pop": "K", "prog": prog, "input": inp})
    return out


_E_CACHE = {}


def exhaustive_cases(limit):
    """Population E: every bracket-balanced program up to a length bound, generated
    by TLC from BFGen.tla (the specification enumerates, not the driver)."""
    from . import tlc
    L = 4 if limit <= 6000 else (5 if limit <= 60000 else 6)
    if L not in _E_CACHE:
        res = tlc.run_tlc("BFGen", env={"MAXLEN": L}, workers=8, timeout=900)
        progs = sorted({r["prog"] for r in res.records if "prog" in r})
        _E_CACHE[L] = (progs, res)
    progs, res = _E_CACHE[L]
    out = []
    for p in progs:
        inputs = [[]] if "," not in p else [[], [0], [1], [255], [2, 1]]
        for inp in inputs:
            out.append({"pop": "E", "prog": p, "input": inp})
    if len(out) > limit:
        rng = random.Random(seed())
        out = rng.sample(out, limit)
    return out


_F_CACHE = []


def loopform_cases(limit):
    """Population F: the counting-loop idioms of LoopForms.tla (linear, triangular in both statement orders,
    geometric; counter known to the optimiser or read from the input) over a parameter grid, generated by
    TLC from the specification (GEN = 1), one Brainfuck text per case."""
    from . import tlc
    if not _F_CACHE:
        res = tlc.run_tlc("LoopForms", cfg="LoopFormsGen", env={"MAXW": 3, "GEN": 1, "MUT": 0}, workers=8, timeout=900)
        recs = [r for r in res.records if "form" in r]
        if not recs:
            raise ToolError("LoopForms.tla generated no case\n" + res.raw_tail)
        recs.sort(key=lambda r: (r["form"], r["ctr"], r["known"], r["m"], r["inc"], r["a"], r["b"], r["x0"]))
        _F_CACHE.append(recs)
    recs = _F_CACHE[0]
    if len(recs) > limit:
        recs = random.Random(seed() * 43 + 11).sample(recs, limit)
    return [{"pop": "F", "prog": r["prog"], "input": r["input"]} for r in recs]


def design_check_loopforms(rep, tier):
    """LoopForms.tla: the optimiser's loop algebra (trip counts by 2-adic division / modular inverse, linear,
    triangular and geometric closed forms as coded in opt.rs) against the step-by-step run of the same
    loops, every parameter combination at the widths 1..MAXW."""
    from . import tlc
    from .common import NCPU
    maxw = 3 if tier == "quick" else 4
    res = tlc.run_tlc("LoopForms", env={"MAXW": maxw, "GEN": 0, "MUT": 0}, workers=max(2, NCPU - 2), timeout=3000,
                      coverage=True, allow_violation=True)
    rep.add_tlc(res)
    rep.coverage["optimiser_loop_algebra"] = {
        "module": "LoopForms.tla", "widths": list(range(1, maxw + 1)), "distinct_states": res.distinct,
        "forms": ["lin", "triA", "triB", "geo", "geoT"], "counter": ["known", "read from input"],
        "counter_update": ["step (c += inc)", "set (c := inc)"],
        "checked": ["TripOK", "UnknownOnlyWhenEvenStep", "LinOK", "TriOK", "GeoOK", "GeoTOK", "Classified"],
        "actions": {k: v for k, v in res.coverage.items() if k in ("Pick1", "Pick2", "Iterate", "Exit", "Spin")}}
    if res.violated:
        raise ToolError("LoopForms: the transcribed loop algebra disagrees with the step-by-step run (%s)\n%s" % (
            res.violated, res.raw_tail))


def override_cases():
    """VERIF_CASES=<ndjson file of {prog,input,w}> (also set by --replay) replaces
    the generated population."""
    path = os.environ.get("VERIF_CASES")
    if not path:
        return None
    out = []
    for i, l in enumerate(open(path)):
        if l.strip():
            c = json.loads(l)
            c = c.get("witness", c)
            out.append({"id": "X%d" % i, "pop": "X", "prog": c["prog"], "input": c.get("input", []),
                        "w": c.get("w", 8), "accel": c.get("accel", 0), "pad": c.get("pad", 0),
                        "padAt": c.get("padAt", 0)})
    return out


def dev_pops(pops, per_pop):
    if os.environ.get("VERIF_POPS"):          # development aid: "N=30000,S=0"
        per_pop = {k: int(v) for k, v in (x.split("=") for x in os.environ["VERIF_POPS"].split(","))}
        pops = list(per_pop)
    return pops, per_pop


# ------------------------------------------------------------------ adjudication
def adjudicate(rep, prop, bins, prof, chosen, name=None, max_steps=6000, max_ev=300):
    """chosen: list of (case, runs, results, done) - or, with prof=None, a list of
    (profile, chosen) pairs.  Validates every distinct recording with TLC (identical
    recordings of the same case under different configurations or profiles are
    validated once); returns list of (case, runs, trace, verdict, prof)."""
    groups = chosen if prof is None else [(prof, chosen)]
    uniq, order, entries = {}, [], []
    for pf, ch in groups:
        traces, owners = bf.group_traces(ch, tag=pf[0] + ":")
        bycase = {c["id"]: (c, runs) for (c, runs, res, done) in ch}
        for t in traces:
            cid = t["id"].split(":", 1)[1].rsplit("#", 1)[0]
            case, runs = bycase[cid]
            key = json.dumps([cid, t["outFail"], t["inFail"], t["inAbsent"], t["outAbsent"], t["log"], t["claim"],
                              t["mustFinish"], t["detail"], t["refused"]])
            if key not in uniq:
                uniq[key] = t
                order.append(t)
            entries.append((case, [runs[i] for i in owners[t["id"]]], t, key, pf))
    verdicts = bf.validate(order, rep, name or prop, max_steps=max_steps, max_ev=max_ev)
    rep.count("recordings_identical_across_profiles", len(entries) - len(order))
    return [(case, runs, t, verdicts[uniq[key]["id"]], pf) for (case, runs, t, key, pf) in entries]


def settle(rep, prop, bins, judged, shrink=True):
    """Turns TLC verdicts into violations / samples / counters."""
    rejected = []
    for case, runs, t, v, prof in judged:
        if v["verdict"] == "rejected":
            rejected.append((case, runs[0], t, v, prof))
        elif v["verdict"] == "inconclusive":
            rep.count("inconclusive")
        else:
            rep.count("accepted")
            if len(rep.coverage["samples"]) < 5 and (v["steps"] > 20 or t["claim"] != "complete"):
                rep.sample({"prog": case["prog"], "w": case["w"], "input": case["input"],
                            "configs": [bf.cfg_name(r) for r in runs][:6], "claim": t["claim"],
                            "log": t["log"][:12], "tlc": v["why"], "canonical_steps": v["steps"]})
    report_rejected(rep, bins, rejected, prop, max_shrink=12 if shrink else 0)


def report_rejected(rep, bins, rejected, prop, max_shrink=12):
    """Rejected recordings become violations.  For readability the first few are
    delta-debugged natively; the shrunk case is reported only if TLC rejects its
    recording as well."""
    todo = [r for r in rejected if r[2]["claim"] == "complete" and r[1].get("mode", "exec") == "exec"
            and r[1].get("alloc", "sys") == "sys" and not r[0].get("accel")][:max_shrink]
    shrunk = {}
    if todo:
        reqs = [{"op": "shrink", "id": "s%d" % i, "prog": c["prog"], "w": c["w"], "input": c["input"], "run": run}
                for i, (c, run, t, v, prof) in enumerate(todo)]
        byprof = {}
        for i, r in enumerate(todo):
            byprof.setdefault(r[4], []).append(i)
        cases2, runs2 = [], {}
        for prof, idxs in byprof.items():
            answers = pool.simple_requests(bins[prof], [reqs[i] for i in idxs], timeout=240.0)
            for i, a in zip(idxs, answers):
                if a and a.get("shrunk") == 1 and len(a["prog"]) < len(todo[i][0]["prog"]):
                    c2 = {"id": "shr%d" % i, "pop": "shrunk", "prog": a["prog"], "w": todo[i][0]["w"],
                          "input": a["input"]}
                    cases2.append((prof, c2))
                    runs2[c2["id"]] = todo[i][1]
        for prof in byprof:
            cs = [c for (p, c) in cases2 if p == prof]
            if not cs:
                continue
            ex = bf.execute(bins[prof], cs, lambda c: [runs2[c["id"]]])
            for case, runs, t, v, pf in adjudicate(rep, prop, bins, prof, ex, name=prop + "-shrunk"):
                if v["verdict"] == "rejected":
                    shrunk[int(case["id"][3:])] = (case, runs[0], t, v, pf)
    todo_ids = {id(r): i for i, r in enumerate(todo)}
    final = []
    for r in rejected:
        i = todo_ids.get(id(r))
        final.append(shrunk[i] if (i is not None and i in shrunk) else r)
    try:
        where = localise(rep, bins, final) if final else {}
    except Exception as e:           # localisation is a convenience, never a reason to fail
        log("[localise] skipped: %s" % e)
        where = {}
    for n, r in enumerate(final):
        case, run, t, v, prof = r
        wit = bf.witness(case, run, t, v, prof)
        if n in where:
            wit["localisation"] = where[n]
        rep.violation(wit,
                      "%s w=%d %s: %s  prog=%s input=%s%s" % (
                          bf.cfg_name(run), case["w"], prof, v["why"], case["prog"], case["input"],
                          ("  [" + where[n] + "]") if n in where else ""))


def bc_validate(rep, hv, name, items, max_steps=8000):
    """items: list of (key, case, backend, level, canonical log).  Dumps the bytecode the
    executor holds (hook H1) and lets TLC run it as BC.tla against the canonical log.
    Returns {key: verdict record}."""
    from . import tlc
    from .common import workdir, NCPU
    if not items:
        return {}
    reqs = [{"op": "dumpbc", "id": str(k), "prog": c["prog"], "w": c["w"], "level": lvl, "backend": b}
            for k, (key, c, b, lvl, logv) in enumerate(items)]
    dumps = pool.simple_requests(hv, reqs, timeout=120.0)
    cases, keys = [], {}
    for k, ((key, c, b, lvl, logv), d) in enumerate(zip(items, dumps)):
        if not d or "insts" not in d:
            continue
        cid = "b%d" % k
        keys[cid] = key
        cases.append({"id": cid, "w": c["w"], "input": c["input"], "log": logv, "insts": d["insts"], "min": d["min"],
                      "max": d["max"], "temps": d["temps"]})
    path = os.path.join(workdir(name), "bc-cases.ndjson")
    tlc.write_ndjson(path, cases)
    res = tlc.run_tlc("BC", env={"CASES": path, "MAXSTEPS": max_steps}, workers=max(2, NCPU - 2), timeout=1800)
    rep.add_tlc(res)
    out = {}
    for r in res.records:
        if "verdict" in r and r["id"] in keys:
            out[keys[r["id"]]] = r
    return out


def flatten_ir(block):
    """Lays the structured IR out flat (see IR.tla): Loop = jz END; body; mov shift; jmp HEAD,
    If = jz END; body; mov shift."""
    code = []

    def tree(t):
        if t[0] == "i":
            return ["i", t[1]]
        if t[0] == "m":
            return ["m", t[1]]
        return [t[0], tree(t[1]), tree(t[2])]

    def emit(b):
        for ins in b["insts"]:
            k = ins[0]
            if k in ("out", "inp"):
                code.append([k, ins[1]])
            elif k == "calc":
                code.append(["calc", [[var, tree(t)] for var, t in ins[1]]])
            elif k in ("loop", "if"):
                head = len(code)
                code.append(["jz", ins[1], None])
                emit(ins[2])
                code.append(["mov", ins[2]["shift"]])
                if k == "loop":
                    code.append(["jmp", head])
                code[head][2] = len(code)
    emit(block)
    return code


def ir_validate(rep, hv, name, items, max_steps=12000):
    """items: (key, case, level, canonical log).  The optimised IR held by the IR
    interpreter (hook verif_program) runs inside TLC (IR.tla) against the canonical log."""
    from . import tlc
    from .common import workdir, NCPU
    if not items:
        return {}
    reqs = [{"op": "dumpir", "id": str(k), "prog": c["prog"], "w": c["w"], "level": lvl}
            for k, (key, c, lvl, logv) in enumerate(items)]
    dumps = pool.simple_requests(hv, reqs, timeout=120.0)
    cases, keys = [], {}
    for k, ((key, c, lvl, logv), d) in enumerate(zip(items, dumps)):
        if not d or "ir" not in d:
            continue
        cid = "i%d" % k
        keys[cid] = key
        cases.append({"id": cid, "w": c["w"], "input": c["input"], "log": logv, "code": flatten_ir(d["ir"])})
    path = os.path.join(workdir(name), "ir-cases.ndjson")
    tlc.write_ndjson(path, cases)
    res = tlc.run_tlc("IR", env={"CASES": path, "MAXSTEPS": max_steps}, workers=max(2, NCPU - 2), timeout=1800)
    rep.add_tlc(res)
    out = {}
    for r in res.records:
        if "verdict" in r and r["id"] in keys:
            out[keys[r["id"]]] = r
    return out


def ir_cross_check(rep, bins, prop, judged, limit):
    """Execution-free second opinion on the optimiser: the optimised IR of accepted cases,
    run inside TLC (IR.tla), must emit the canonical log.  A disagreement while the real
    interpreter produced the canonical log is model drift (INFO), never a violation."""
    hv = bins["release"]
    seen, items = set(), []
    for case, runs, t, v, prof in judged:
        if v["verdict"] != "accepted" or t["claim"] != "complete" or v["steps"] < 10:
            continue
        for r in runs:
            if r.get("backend") != "irint" or r.get("level", 0) == 0:
                continue
            key = (case["id"], r["level"])
            if key not in seen:
                seen.add(key)
                items.append((key, case, r["level"], t["log"]))
    random.Random(seed()).shuffle(items)
    items = items[:limit]
    verd = ir_validate(rep, hv, prop + "-ir", items)
    rej = [(k, v) for k, v in verd.items() if v["verdict"] == "rejected"]
    rep.coverage["ir_model_cross_check"] = {
        "optimised_programs_run_in_TLC": len(verd),
        "accepted": sum(1 for v in verd.values() if v["verdict"] == "accepted"),
        "inconclusive": sum(1 for v in verd.values() if v["verdict"] == "inconclusive"),
        "model_drift": len(rej)}
    for k, v in rej[:5]:
        rep.info("model-drift IR.tla vs real irint on case %s level %d: %s" % (k[0], k[1], v["why"][:200]))


def bytecode_cross_check(rep, bins, prop, backend, judged, limit):
    """Execution-free second opinion on the translator: the bytecode of accepted
    cases, run inside TLC (BC.tla), must emit the canonical log too.  A disagreement
    here while the real backend produced the canonical log is reported as model
    drift (INFO), never as a violation."""
    hv = bins["release"]
    seen, items = set(), []
    for case, runs, t, v, prof in judged:
        if v["verdict"] != "accepted" or t["claim"] != "complete" or v["steps"] < 10:
            continue
        for r in runs:
            if r.get("backend") != backend or r.get("mode", "exec") != "exec":
                continue
            key = (case["id"], r["level"])
            if key in seen:
                continue
            seen.add(key)
            items.append((key, case, backend, r["level"], t["log"]))
    random.Random(seed()).shuffle(items)
    items = items[:limit]
    verd = bc_validate(rep, hv, prop + "-bc", items)
    acc = sum(1 for v in verd.values() if v["verdict"] == "accepted")
    inc = sum(1 for v in verd.values() if v["verdict"] == "inconclusive")
    rej = [(k, v) for k, v in verd.items() if v["verdict"] == "rejected"]
    rep.coverage.setdefault("bytecode_model_cross_check", {})[backend] = {
        "bytecode_programs_run_in_TLC": len(verd), "accepted": acc, "inconclusive": inc, "model_drift": len(rej),
        "checked_in_every_state": "every tape access inside the declared window and inside what the bounds "
                                  "protocol made accessible (BC.tla WindowInside / access checks)"}
    for k, v in rej[:5]:
        rep.info("model-drift BC.tla vs real %s on case %s level %d: %s" % (backend, k[0], k[1], v["why"][:200]))


def localise(rep, bins, rejected):
    """For rejected recordings of the IR-based backends: where does the canonical behaviour
    get lost?  The optimised IR (IR.tla) and the bytecode (BC.tla) of the failing
    configuration are run inside TLC against the canonical log:
    IR differs -> optimiser; IR fine, bytecode differs -> bytecode generator;
    both fine -> the executor (irint.rs / ops.rs / JIT)."""
    hv = bins["release"]
    cand = [(i, r) for i, r in enumerate(rejected) if r[1].get("backend") in ("irint", "bcint", "jit")
            and r[1].get("mode", "exec") == "exec"][:10]
    if not cand:
        return {}
    # the canonical log: what the in-place interpreter records and BFTrace accepts
    cases = [dict(r[0], id="loc%d" % i) for i, r in cand]
    ex = bf.execute(hv, cases, lambda c: [{"backend": "inplace", "level": 0}])
    jd = adjudicate(rep, "LOC", bins, "release", ex, name="localise")
    canon = {case["id"]: t["log"] for case, runs, t, v, prof in jd if v["verdict"] == "accepted"}
    ir_items, bc_items = [], []
    for i, r in cand:
        cid = "loc%d" % i
        if cid not in canon:
            continue
        c2 = dict(r[0], id=cid)
        ir_items.append((i, c2, r[1].get("level", 0), canon[cid]))
        if r[1]["backend"] in ("bcint", "jit"):
            bc_items.append((i, c2, r[1]["backend"], r[1].get("level", 0), canon[cid]))
    irv = ir_validate(rep, hv, "localise", ir_items)
    bcv = bc_validate(rep, hv, "localise", bc_items)
    out = {}
    for i, r in cand:
        a, b = irv.get(i), bcv.get(i)
        if a is None or a["verdict"] == "inconclusive":
            continue
        if a["verdict"] == "rejected":
            out[i] = "optimised IR (IR.tla) already differs from the canonical log: optimiser (%s)" % a["why"][:140]
        elif b is None:
            out[i] = "optimised IR (IR.tla) emits the canonical log: the IR interpreter misbehaves"
        elif b["verdict"] == "rejected":
            out[i] = "IR fine, bytecode (BC.tla) differs from the canonical log: bytecode generator (%s)" % b["why"][:140]
        elif b["verdict"] == "accepted":
            out[i] = "IR and bytecode (IR.tla, BC.tla) emit the canonical log: the executor misbehaves"
    return out


def nontrivial(done):
    return done.get("iters", 0) >= 1 and done.get("refnev", 0) >= 1


# ------------------------------------------------------------------ C01-C04
def heavy_side(rep, prop, bins, runs_for, n, profiles=("release",), tail_share=0.0, cases=None):
    """Population H (vlib/heavy.py): runs of 2^32 canonical steps and more, made of linear loops that
    BF.tla summarises in one step each (Accel).  Only configurations that fold such loops can finish
    them; a run that is still going when the watchdog fires says nothing here and is dropped."""
    from . import heavy
    if cases is None:
        cases = heavy.heavy_cases(seed(), n, tail_share)
    judged = []
    slow = 0
    for prof in profiles:
        executed = bf.execute(bins[prof], cases, runs_for)
        for case, runs, results, done in executed:
            for i, r in enumerate(results):
                if r is not None and "hung" in r and not (runs[i].get("mode") == "limited"):
                    results[i] = None
                    slow += 1
        judged.append((prof, executed))
    out = adjudicate(rep, prop, bins, None, judged, name=prop + "-heavy")
    rep.coverage["heavy_population"] = {
        "cases": len(cases), "recordings_validated": len(out),
        "runs_dropped_because_still_running": slow,
        "accepted": sum(1 for j in out if j[3]["verdict"] == "accepted"),
        "inconclusive": sum(1 for j in out if j[3]["verdict"] == "inconclusive"),
        "rule": "programs that build k*2^(W/2), k*2^32, 2^(W-1)... through multiplication loops and then print, "
                "test, subtract and loop on them; canonical runs of up to 2^64 steps, validated with BF!Accel"}
    return out


COMMENT_CHARS = list("a #\n\t!0") + ["\r", "é", "日", "\U0001F600", "ß", "€", "\U00010348", "\u012b", "\u012c", "\u012d",
                                          "\u012e", "\u013c", "\u013e", "\u015b", "\u015d", "\u4e2b", "\u305b"]


def commented_copies(cases, sd, share):
    """Copies of a share of the cases with comment characters (one to four bytes long in UTF-8,
    some congruent to a command modulo 256) interleaved; a third of them put the comments inside
    bracket pairs only, where a skipped loop has to step over them."""
    rng = random.Random(sd + 29)
    out = []
    for c in cases:
        if rng.random() >= share or not c["prog"]:
            continue
        chars = list(c["prog"])
        inside = rng.random() < 0.34 and "[" in chars
        for _ in range(rng.randint(1, 6)):
            if inside:
                opens = [i for i, ch in enumerate(chars) if ch == "["]
                chars.insert(rng.choice(opens) + 1, rng.choice(COMMENT_CHARS))
            else:
                chars.insert(rng.randint(0, len(chars)), rng.choice(COMMENT_CHARS))
        c2 = dict(c)
        c2["prog"] = "".join(chars)
        c2["id"] = c["id"] + "c"
        c2["pop"] = "C"
        out.append(c2)
    return out


def run_equivalence(prop, tier, backend_runs, pops, per_pop, profiles=("release",), adjudicate_max=3000,
                    before=None, comment_share=0.0, heavy=0):
    """Run cases whose canonical run is short on the given configurations,
    validate every distinct recording with TLC."""
    rep = Report(prop, "model_checking", tier)
    sd = seed()
    pops, per_pop = dev_pops(pops, per_pop)
    bins = build_harness(tuple(set(profiles) | {"release"}))
    if before and not os.environ.get("VERIF_CASES"):
        before(rep, tier)
    cases = override_cases() or population(bins["release"], tier, sd, pops, per_pop)
    if comment_share and not os.environ.get("VERIF_CASES"):
        extra = commented_copies([c for c in cases if c["pop"] != "E" or len(c["prog"]) >= 6], sd, comment_share)
        rep.count("cases_with_comment_characters", len(extra))
        cases = cases + extra
    rep.count("cases_generated", len(cases))
    judged = []
    for prof in profiles:
        executed = bf.execute(bins[prof], cases, backend_runs, screen=SCREEN)
        halting = [e for e in executed if e[3].get("refclass") == "halts"]
        skipped = len(executed) - len(halting)
        if skipped and os.environ.get("VERIF_CASES"):
            log("[%s] %d case(s) skipped: canonical run not halting within the caps" % (prop, skipped))
        rep.count("prescreened", sum(len(e[1]) for e in halting))
        # every case on which the recordings look different goes to TLC; the others are sampled
        dis = [e for e in halting if not e[3].get("agree")]
        agr = [e for e in halting if e[3].get("agree")]
        rng = random.Random(sd + 17)
        rng.shuffle(agr)
        # exhaustively enumerated cases are never sampled away
        keep = [e for e in agr if e[0]["pop"] == "E"]
        rest = [e for e in agr if e[0]["pop"] != "E"]
        room = max(0, adjudicate_max // len(profiles) - len(dis))      # E comes on top of the sampled budget
        chosen = dis[:adjudicate_max] + keep + rest[:room]
        rep.count("cases_halting_within_caps", len(halting))
        rep.count("cases_with_disagreeing_backends", len(dis))
        rep.count("distinct_nontrivial", sum(1 for e in chosen if nontrivial(e[3])))
        rep.count("exhaustive_cases_validated", len(keep) + sum(1 for e in dis if e[0]["pop"] == "E"))
        judged.append((prof, chosen))
    judged = adjudicate(rep, prop, bins, None, judged)
    if heavy and (not os.environ.get("VERIF_CASES") or any(c.get("accel") for c in cases)):
        hruns = [r for r in backend_runs({}) if r.get("level", 0) >= 1]
        hcases = [c for c in cases if c.get("accel")] if os.environ.get("VERIF_CASES") else None
        judged += heavy_side(rep, prop, bins, lambda c: [dict(r) for r in hruns], heavy, profiles, cases=hcases)
    rep.coverage["rule"] = ("cases: populations %s (E = every balanced program up to a length bound, enumerated by "
                            "TLC from BFGen.tla; the others seeded), run on %s; a case is non-trivial when its "
                            "canonical run has >= 1 loop iteration and >= 1 event; every distinct recording of a "
                            "chosen case is validated by TLC against BF.tla (BFTrace); all cases on which "
                            "recordings differ are chosen, agreeing ones are sampled (prescreened counts all runs)"
                            % (",".join(pops), "/".join(profiles)))
    if comment_share:
        rep.coverage["rule"] += ("; population C = copies of %d%% of the cases with comment characters of one to "
                                 "four UTF-8 bytes interleaved (a third of them directly behind a '[')"
                                 % round(comment_share * 100))
    if prop == "C01" and not os.environ.get("VERIF_CASES"):
        ir_cross_check(rep, bins, prop, judged, 400 if tier == "quick" else 6000)
    if prop == "C03" and not os.environ.get("VERIF_CASES"):
        selector_coverage(rep, bins["release"], cases, 3000 if tier == "quick" else 40000)
    if prop in ("C02", "C03") and not os.environ.get("VERIF_CASES"):
        bytecode_cross_check(rep, bins, prop, "bcint" if prop == "C02" else "jit", judged,
                             400 if tier == "quick" else 6000)
    settle(rep, prop, bins, judged)
    return rep.finish()


def selector_coverage(rep, hv, cases, limit):
    """Which operand-kind combinations of the JIT's instruction selector the population reaches
    (instruction x register / stack temporary / memory / small / large immediate), read from the
    bytecode the JIT holds (hook H1).  Coverage information only."""
    from .props_static import form
    rng = random.Random(seed() + 23)
    pick = list(cases)
    rng.shuffle(pick)
    # the populations built for the selector first
    pick.sort(key=lambda c: 0 if c["pop"] in ("N", "L", "I", "G") else 1)
    pick = pick[:limit]
    reqs = [{"op": "dumpbc", "id": str(k), "prog": c["prog"], "w": c["w"], "level": 1 + k % 3, "backend": "jit"}
            for k, c in enumerate(pick)]
    forms = {}
    for a in pool.simple_requests(hv, reqs, timeout=120.0):
        for ins in (a or {}).get("insts", []):
            f = form(ins, 11)
            forms[f] = forms.get(f, 0) + 1
    stack = {f: n for f, n in forms.items() if ",s" in f or ":s" in f}
    large = {f: n for f, n in forms.items() if "I" in f.split(":")[1]}
    rep.coverage["jit_selector_forms"] = {
        "programs_dumped": len(reqs), "distinct_forms": len(forms),
        "forms_with_a_stack_temporary": len(stack), "forms_with_an_immediate_beyond_32_bits": len(large),
        "most_frequent": dict(sorted(forms.items(), key=lambda kv: -kv[1])[:25]),
        "stack_temporary_forms": dict(sorted(stack.items(), key=lambda kv: -kv[1])[:40]),
        "large_immediate_forms": dict(sorted(large.items(), key=lambda kv: -kv[1])[:20])}


def design_check_bf(rep, tier):
    """MCBF.tla: the canonical machine itself is model checked on every balanced
    program up to a length bound x tiny and real widths x inputs x fault plans."""
    from . import tlc
    from .common import workdir, NCPU
    exhaustive_cases(6000 if tier == "quick" else 60000)        # fills the cache through BFGen.tla
    L = 4 if tier == "quick" else 5
    progs, _ = _E_CACHE[L]
    cases = []
    plans = [(-1, -1, 0, 0), (0, -1, 0, 0), (1, -1, 0, 0), (-1, 0, 0, 0), (-1, 1, 0, 0), (-1, -1, 1, 0), (-1, -1, 0, 1)]
    k = 0
    for p in progs:
        for w in (1, 2, 8):
            for inp in ([[], [1]] if "," in p else [[]]):
                for (of, inf, ia, oa) in plans:
                    if of >= 0 and "." not in p:
                        continue
                    if (inf >= 0 or ia) and "," not in p:
                        continue
                    if oa and "." not in p:
                        continue
                    k += 1
                    cases.append({"id": "mc%d" % k, "prog": list(p), "w": w, "input": inp, "outFail": of,
                                  "inFail": inf, "inAbsent": ia, "outAbsent": oa, "inSilent": 0})
    path = os.path.join(workdir("MCBF"), "cases.ndjson")
    tlc.write_ndjson(path, cases)
    res = tlc.run_tlc("MCBF", env={"CASES": path, "MAXSTEPS": 120, "MAXEV": 40}, workers=max(2, NCPU - 2),
                      timeout=3000, allow_violation=True)
    rep.add_tlc(res)
    rep.coverage["oracle_design_check"] = {
        "module": "MCBF.tla", "programs": len(progs), "max_program_length": L, "cases": len(cases),
        "widths": [1, 2, 8], "distinct_states": res.distinct,
        "checked": ["TypeOK", "JumpsMatch (against an independent depth-counting definition)", "HistoryOK", "DivSound",
                    "CountsOK", "Deterministic (exactly one action enabled)", "Terminal", "Grows", "CommentNoop",
                    "TapeOnlyByIncDecIn", "StopIsFinal", "FaultStopsInPlace"]}
    if res.violated:
        raise ToolError("MCBF: the canonical machine violates its own design property %s\n%s" % (
            res.violated, res.raw_tail))
    # the one-step summary of linear loops (BF!Accel, used for runs of 2^32 steps and more) against the
    # step-by-step run: every linear body up to a length bound x counter values x neighbour contents x widths
    import itertools
    maxb = 5 if tier == "quick" else 6
    bodies = []
    for n in range(1, maxb + 1):
        for t in itertools.product("+-<>", repeat=n):
            off, d0, ok = 0, 0, True
            for ch in t:
                if ch == ">":
                    off += 1
                elif ch == "<":
                    off -= 1
                elif off == 0:
                    d0 += 1 if ch == "+" else -1
            if off == 0 and d0 in (-1, 1):
                bodies.append("".join(t))
    lin = []
    for b in bodies:
        d0 = sum((1 if ch == "+" else -1) for ch, o in zip(b, _offsets(b)) if ch in "+-" and o == 0)
        for pre in ("+", "++", "+++", "-", "--"):
            for nb in ("", ">+<", "<-->", ">>-<<<+>"):
                for w in (2, 3, 8):
                    if w == 8 and d0 == (1 if pre[0] == "+" else -1) and (len(lin) % 40):
                        continue             # ~250 iterations each: a sample only
                    lin.append({"id": "ln%d" % len(lin), "prog": list(nb + pre + "[" + b + "]"), "w": w, "input": [],
                                "outFail": -1, "inFail": -1, "inAbsent": 0, "outAbsent": 0, "inSilent": 0})
    path = os.path.join(workdir("MCBF"), "linear.ndjson")
    tlc.write_ndjson(path, lin)
    res = tlc.run_tlc("MCBF", env={"CASES": path, "MAXSTEPS": 4000, "MAXEV": 40}, workers=max(2, NCPU - 2),
                      timeout=3000, allow_violation=True)
    rep.add_tlc(res)
    rep.coverage["oracle_design_check"]["linear_loop_summary"] = {
        "invariant": "AccelSound", "bodies": len(bodies), "max_body_length": maxb, "cases": len(lin),
        "widths": [2, 3, 8], "distinct_states": res.distinct}
    if res.violated:
        raise ToolError("MCBF: the linear-loop summary disagrees with the step-by-step run (%s)\n%s" % (
            res.violated, res.raw_tail))


def _offsets(body):
    out, off = [], 0
    for ch in body:
        out.append(off)
        if ch == ">":
            off += 1
        elif ch == "<":
            off -= 1
    return out


def c04(tier):
    per = {"E": 40000, "rnd": 1200, "S": 1200, "T": 300, "R": 300, "M": 600, "P": 120, "Z": 60} if tier == "quick" else \
          {"E": 300000, "rnd": 20000, "S": 20000, "T": 3000, "R": 400, "M": 8000, "N": 2000, "P": 2000, "Z": 600}
    return run_equivalence("C04", tier, lambda c: [{"backend": "inplace", "level": 0}],
                           ["E", "rnd", "S", "T", "R", "M", "N", "P", "Z"], per,
                           adjudicate_max=3000 if tier == "quick" else 400000, before=design_check_bf,
                           comment_share=0.08)


def c01(tier):
    levels = [0, 1, 2, 3, 4, 7]
    per = {"E": 6000, "rnd": 3000, "S": 6000, "R": 300, "M": 2000, "N": 500, "L": 1500, "G": 1500, "I": 400,
           "W": 600, "P": 40, "Q": 300, "F": 6000, "Y": 1500, "Z": 30} if tier == "quick" else \
        {"E": 60000, "rnd": 60000, "S": 150000, "R": 400, "M": 40000, "N": 10000, "L": 40000, "G": 30000, "I": 8000,
         "W": 12000, "P": 800, "Q": 6000, "F": 50000, "Y": 30000, "Z": 300}
    return run_equivalence("C01", tier, lambda c: [{"backend": "irint", "level": l} for l in levels],
                           ["E", "rnd", "S", "R", "M", "N", "L", "G", "I", "W", "P", "Q", "F", "Y", "Z"], per,
                           adjudicate_max=2500 if tier == "quick" else 80000, comment_share=0.02,
                           heavy=150 if tier == "quick" else 3000, before=design_check_loopforms)


def c02(tier):
    per = {"E": 6000, "rnd": 2000, "S": 4000, "R": 300, "M": 1500, "N": 800, "T": 200, "L": 1500, "I": 600, "G": 600,
           "W": 2500, "P": 40, "F": 1500, "Y": 600, "U": 600, "Z": 30} if tier == "quick" else \
        {"E": 60000, "rnd": 40000, "S": 100000, "R": 400, "M": 30000, "N": 20000, "T": 2000, "L": 40000, "I": 12000,
         "G": 12000, "W": 8000, "P": 800, "F": 50000, "Y": 10000, "U": 10000, "Z": 300}
    return run_equivalence("C02", tier, lambda c: [{"backend": "bcint", "level": l} for l in range(4)],
                           ["E", "rnd", "S", "R", "M", "N", "T", "L", "I", "G", "W", "P", "F", "Y", "U", "Z"], per, profiles=("release", "debug"),
                           adjudicate_max=5000 if tier == "quick" else 120000, comment_share=0.02,
                           heavy=150 if tier == "quick" else 3000)


def c03(tier):
    per = {"E": 6000, "rnd": 2000, "S": 4000, "R": 300, "M": 1500, "N": 2500, "T": 200, "L": 8000, "I": 600, "G": 600,
           "W": 2500, "P": 40, "F": 1500, "Y": 600, "U": 600, "Z": 30} if tier == "quick" else \
        {"E": 60000, "rnd": 40000, "S": 100000, "R": 400, "M": 30000, "N": 60000, "T": 2000, "L": 120000, "I": 12000,
         "G": 12000, "W": 8000, "P": 800, "F": 50000, "Y": 10000, "U": 10000, "Z": 300}
    return run_equivalence("C03", tier, lambda c: [{"backend": "jit", "level": l} for l in range(4)],
                           ["E", "rnd", "S", "R", "M", "N", "T", "L", "I", "G", "W", "P", "F", "Y", "U", "Z"], per,
                           adjudicate_max=2500 if tier == "quick" else 80000, comment_share=0.02,
                           heavy=300 if tier == "quick" else 6000)


# ------------------------------------------------------------------ canonical facts
def classify(rep, prop, cases, max_steps=6000, max_ev=300):
    """Canonical facts of every case (class, steps, number of outputs and input
    requests, pointer excursion) from the specification itself: TLC runs BF.tla
    with claim "classify"."""
    traces = []
    for c in cases:
        traces.append({"id": c["id"], "prog": list(c["prog"]), "w": c["w"], "input": c["input"], "outFail": -1,
                       "inFail": -1, "inAbsent": 0, "outAbsent": 0, "log": [], "claim": "classify",
                       "mustFinish": 0, "detail": "", "refused": 0, "inSilent": 0})
    verdicts = bf.validate(traces, rep, prop + "-classify", max_steps=max_steps, max_ev=max_ev)
    rep.coverage["traces_validated_against_impl"] -= len(traces)      # these were not recordings
    return verdicts


def halting_cases(rep, prop, hv, tier, pops, per_pop, want=None):
    """Population restricted to cases that TLC classifies as halting."""
    sd = seed()
    pops, per_pop = dev_pops(pops, per_pop)
    cases = override_cases() or population(hv, tier, sd, pops, per_pop)
    # cheap native pre-filter (scheduling only), then the specification's own classification
    refs = pool.simple_requests(hv, [{"op": "ref", "id": c["id"], "prog": c["prog"], "w": c["w"],
                                      "input": c["input"], "maxSteps": 5000, "maxEv": 250} for c in cases])
    pre = [c for c, r in zip(cases, refs) if r and r.get("class") == "halts"]
    if want and len(pre) > want:
        rng = random.Random(sd + 3)
        keepE = [c for c in pre if c["pop"] == "E"]
        others = [c for c in pre if c["pop"] != "E"]
        rng.shuffle(others)
        ne = min(len(keepE), max(want - len(others), want // 3))
        pre = rng.sample(keepE, ne) + others[: want - ne]
    facts = classify(rep, prop, pre)
    out = []
    for c in pre:
        f = facts[c["id"]]
        if f["class"] == "halts":
            c = dict(c)
            c["facts"] = f
            out.append(c)
    rep.count("cases_generated", len(cases))
    rep.count("cases_halting_by_spec", len(out))
    return out


def spread(n, cap):
    """All of 0..n if that is at most cap positions, else cap positions spread evenly (ends included)."""
    if n + 1 <= cap:
        return list(range(n + 1))
    return sorted({round(i * n / (cap - 1)) for i in range(cap)})


def config_runs(extra, configs=ALL_CONFIGS):
    return [dict({"backend": b, "level": l}, **extra) for (b, l) in configs]


# ------------------------------------------------------------------ C08
def c08(tier):
    rep = Report("C08", "fault_enumeration", tier)
    bins = build_harness(("release",))
    hv = bins["release"]
    per = {"E": 600, "S": 400, "R": 200, "rnd": 250, "M": 150, "I": 120, "N": 30} if tier == "quick" else \
          {"E": 20000, "S": 6000, "R": 400, "rnd": 4000, "M": 3000, "N": 500, "I": 2000}
    cases = halting_cases(rep, "C08", hv, tier, ["E", "S", "R", "rnd", "M", "N", "I"], per,
                          want=380 if tier == "quick" else 6000)
    cap = 12 if tier == "quick" else 64
    nplans = 0

    def runs_for(c):
        nonlocal nplans
        f = c["facts"]
        plans = []
        for k in spread(f["nout"], cap):                 # refuse output k (k = nout: never reached)
            plans.append({"outFail": k, "outFailErr": k % 2})
        for j in spread(f["nin"], cap):                  # fail input request j
            plans.append({"inFail": j})
        plans.append({"inAbsent": 1})
        plans.append({"outAbsent": 1})
        plans.append({"inAbsent": 1, "outAbsent": 1})
        nplans += len(plans)
        runs = []
        for p in plans:
            runs += config_runs(p)
            # the same plan through execute_limited with a generous budget (the fault must still stop the run)
            runs += config_runs(dict(p, mode="limited", budget=10 ** 6),
                                [("inplace", 0), ("irint", 2), ("bcint", 2), ("jit", 2)])
            # ... and through the unchecked entry point, inside a pre-grown region (C10's setting)
            L = len(c["prog"])
            runs += config_runs(dict(p, mode="unsafe", pregrow=[f["lo"] - L, f["hi"] + L + 1]),
                                [("bcint", 1), ("jit", 3)])
        return runs

    executed = bf.execute(hv, cases, runs_for)
    rep.coverage["evaluations"] = sum(len(e[1]) for e in executed)
    rep.coverage["fault_plans"] = nplans
    rep.coverage["distinct_nontrivial"] = sum(1 for c in cases if c["facts"]["nout"] + c["facts"]["nin"] >= 1
                                              and c["facts"]["steps"] > 5)
    rep.coverage["rule"] = ("for every case (halting by BF.tla) the fault plans are: refuse output k for k in "
                            "0..n (n = number of canonical outputs, alternating Ok(0) and Err), fail input request j "
                            "for j in 0..m, input absent, output absent, both absent - at most %d positions of each "
                            "kind per case, spread evenly; each plan is run on inplace and on irint/bcint/jit at "
                            "levels 0-3; every distinct recording (events, the failed attempt, how the call came "
                            "back) is validated by TLC (BFTrace) against BF.tla with the same plan; non-trivial = "
                            "the canonical run has at least one event and more than 5 steps" % cap)
    judged = adjudicate(rep, "C08", bins, "release", executed)
    settle(rep, "C08", bins, judged, shrink=False)
    return rep.finish()


# ------------------------------------------------------------------ C07
# "effectively unlimited" budgets: 2^62, and the values a comparison might take for negative or wrap around
HUGE_BUDGETS = [UNLIMITED, (1 << 63) - 1, 1 << 63, (1 << 64) - 1]
BUDGETS = [0, 1, 2, 3, 5, 10, 100, 1000, 10 ** 4, 10 ** 6] + HUGE_BUDGETS


def c07(tier):
    rep = Report("C07", "model_checking", tier)
    bins = build_harness(("release",))
    hv = bins["release"]
    sd = seed()
    per = {"E": 800, "S": 500, "rnd": 300, "D": 120, "R": 250, "M": 200} if tier == "quick" else \
          {"E": 20000, "S": 8000, "rnd": 4000, "D": 1500, "R": 400, "M": 4000, "N": 800}
    pops, per = dev_pops(["E", "S", "rnd", "D", "R", "M", "N"], per)
    cases = override_cases() or population(hv, tier, sd, pops, per)
    refs = pool.simple_requests(hv, [{"op": "ref", "id": c["id"], "prog": c["prog"], "w": c["w"],
                                      "input": c["input"], "maxSteps": 5000, "maxEv": 250} for c in cases])
    want = 450 if tier == "quick" else 8000
    rng = random.Random(sd + 5)
    refof = {c["id"]: r for c, r in zip(cases, refs)}
    halts = [c for c, r in zip(cases, refs) if r and r.get("class") == "halts"]
    divs = [c for c, r in zip(cases, refs) if r and r.get("class") == "diverges"]
    rng.shuffle(halts)
    rng.shuffle(divs)
    halts, divs = halts[:want], divs[:want // 3]
    hid = {c["id"] for c in halts}

    def runs_for(c):
        runs = []
        for b in BUDGETS:
            if b >= UNLIMITED and c["id"] not in hid:
                continue                      # an unlimited budget on a divergent program never returns (C05)
            plan = {"mode": "limited", "budget": b}
            if c["id"] not in hid and b >= 100:
                plan.update({"outFail": 64, "inFail": 64})   # the environment bounds what a diverger can emit
            runs += config_runs(plan)
        return runs

    executed = bf.execute(hv, halts + divs, runs_for)
    rep.coverage["budgets"] = [str(b) for b in BUDGETS]
    rep.count("cases_halting", len(halts))
    rep.count("cases_divergent", len(divs))
    rep.count("limited_runs", sum(len(e[1]) for e in executed))
    # non-trivial: the budget can actually run out - at least two loop iterations in the canonical run
    rep.coverage["distinct_nontrivial"] = len({(c["prog"], tuple(c["input"]), c["w"]) for c in halts + divs
                                               if refof[c["id"]].get("iters", 0) >= 2})
    rep.coverage["rule"] = ("cases: natively pre-classified halting / divergent programs (TLC re-derives the class "
                            "while validating); each is run with execute_limited at budgets %s on inplace and "
                            "irint/bcint/jit at levels 0-3 (2^62, 2^63-1, 2^63, 2^64-1 only where the program halts); the outcome "
                            "(finished flag + event log) is validated by TLC (BFTrace): finished => complete "
                            "canonical log, unfinished => prefix, unfinished at 2^62 and above => only if the canonical run "
                            "diverges; the return time is bounded by a watchdog of 10 s + 2 us per budget unit; "
                            "non-trivial = distinct cases with at least two loop iterations"
                            % ", ".join(str(b) for b in BUDGETS))
    judged = adjudicate(rep, "C07", bins, "release", executed)
    settle(rep, "C07", bins, judged, shrink=False)
    return rep.finish()


# ------------------------------------------------------------------ C05
def c05(tier):
    rep = Report("C05", "model_checking", tier)
    bins = build_harness(("release",))
    hv = bins["release"]
    sd = seed()
    per = {"D": 1200, "R": 250, "E": 6000, "M": 1500, "S": 300, "W": 3000, "F": 2500} if tier == "quick" else \
          {"D": 4000, "R": 400, "E": 60000, "M": 8000, "S": 3000, "rnd": 3000, "W": 40000, "F": 50000}
    pops, per = dev_pops(["D", "R", "E", "M", "S", "rnd", "W", "F"], per)
    cases = override_cases() or population(hv, tier, sd, pops, per)
    refs = pool.simple_requests(hv, [{"op": "ref", "id": c["id"], "prog": c["prog"], "w": c["w"],
                                      "input": c["input"], "maxSteps": 5000, "maxEv": 250} for c in cases])
    rng = random.Random(sd + 7)
    refof = {c["id"]: r for c, r in zip(cases, refs)}
    divs = [c for c, r in zip(cases, refs) if r and r.get("class") == "diverges"]
    halts = [c for c, r in zip(cases, refs) if r and r.get("class") == "halts" and r.get("iters", 0) >= 1]
    rng.shuffle(divs)
    rng.shuffle(halts)
    nd, nh = (700, 900) if tier == "quick" else (8000, 12000)
    divs, halts = divs[:nd], halts[:nh]
    hid = {c["id"] for c in halts}
    # sample of divergent cases that are really left running under execute()
    live = divs[: (16 if tier == "quick" else 160)]
    liveid = {c["id"] for c in live}
    SINK = {"outFail": 64, "inFail": 64}          # the environment, not the program, ends a printing diverger

    def runs_for(c):
        if c["id"] in hid:                         # terminating side: must come back, with the complete log
            return config_runs({"mode": "exec"})
        runs = config_runs(dict({"mode": "limited", "budget": 1000}, **SINK))
        runs += config_runs(dict({"mode": "limited", "budget": 10 ** 6}, **SINK))
        if c["id"] in liveid:
            runs += config_runs(dict({"mode": "exec", "stream": 1, "watchdog": 2.5, "expectHang": 1}, **SINK))
        return runs

    # terminating side: every halting case runs on all 13 configurations; all cases whose recordings
    # differ (or that hang) go to TLC, the agreeing ones are sampled
    allh = [c for c, r in zip(cases, refs) if r and r.get("class") == "halts"]       # also loops that are skipped
    exh = bf.execute(hv, allh, lambda c: config_runs({"mode": "exec"}), screen=SCREEN)
    exh = [e for e in exh if e[3].get("refclass") == "halts"]
    dis = [e for e in exh if not e[3].get("agree")]
    agr = [e for e in exh if e[3].get("agree")]
    rng.shuffle(agr)
    rep.count("halting_cases_prescreened_on_all_backends", len(exh))
    rep.count("halting_cases_with_differing_recordings", len(dis))
    chosen_h = dis + agr[:nh]
    halts = [e[0] for e in chosen_h]
    hid = {c["id"] for c in halts}
    executed = bf.execute(hv, divs, runs_for) + chosen_h
    still_running = sum(1 for e in executed for r in e[2] if r is not None and "hung" in r)
    rep.count("cases_divergent", len(divs))
    rep.count("cases_halting", len(halts))
    rep.count("runs", sum(len(e[1]) for e in executed))
    rep.count("unbounded_runs_still_running_when_killed", still_running)
    # non-trivial: a diverger that emits at least one event first, or a halting case with >= 3 loop iterations
    rep.coverage["distinct_nontrivial"] = (
        len({(c["prog"], tuple(c["input"]), c["w"]) for c in divs if refof[c["id"]].get("nev", 0) >= 1}) +
        len({(c["prog"], tuple(c["input"]), c["w"]) for c in halts if refof[c["id"]].get("iters", 0) >= 3}))
    rep.coverage["rule"] = ("divergent side: programs whose canonical run repeats a machine state (pre-selected "
                            "natively, proved by BF.tla's snapshot during validation: populations D, R, E, M); each "
                            "runs on inplace and irint/bcint/jit levels 0-3 with execute_limited at 10^3 and 10^6 (the "
                            "sink refuses the 65th output / input request, so printing divergers are stopped by the "
                            "environment) and a sample through execute() under a watchdog (must still be running; "
                            "its streamed log must be a prefix of the divergent run); terminating side: halting "
                            "cases with >= 1 loop iteration must return from execute() on every backend; every "
                            "recording is validated by TLC (BFTrace); counted as non-trivial: distinct divergent "
                            "cases that emit at least one event, distinct halting cases with >= 3 loop iterations")
    judged = adjudicate(rep, "C05", bins, "release", executed)
    if not os.environ.get("VERIF_CASES") or any(c.get("accel") for c in cases):
        # loops whose condition cell is non-zero only in its upper bits (k * 2^32 at 64 bit, ...): the
        # canonical run needs 2^32 steps and more to get there, BF!Accel summarises them (population H)
        from . import heavy as hv_
        nh_ = 120 if tier == "quick" else 2500
        hc = [c for c in cases if c.get("accel")] if os.environ.get("VERIF_CASES") else \
            (hv_.heavy_cases(sd, nh_, tail_share=0.7) + hv_.spin_cases(sd, nh_))

        def hruns(c):
            spin = "[]" in c["prog"]            # only the divergent tail contains an empty loop
            if not spin:
                return [r for r in config_runs({"mode": "exec"}) if r.get("level", 0) >= 1]
            return (config_runs(dict({"mode": "limited", "budget": 1000}, **SINK)) +
                    config_runs(dict({"mode": "limited", "budget": 10 ** 6}, **SINK)))
        judged += heavy_side(rep, "C05", bins, hruns, nh_, cases=hc)
    settle(rep, "C05", bins, judged, shrink=False)
    return rep.finish()


# ------------------------------------------------------------------ C10
def c10(tier):
    rep = Report("C10", "model_checking", tier)
    bins = build_harness(("release", "debug"))
    hv = bins["release"]
    per = {"E": 6000, "S": 800, "T": 400, "rnd": 600, "N": 150, "R": 200, "W": 500, "K": 500} if tier == "quick" else \
          {"E": 60000, "S": 10000, "T": 4000, "rnd": 8000, "N": 3000, "R": 400, "M": 4000, "W": 8000, "K": 8000}
    cases = halting_cases(rep, "C10", hv, tier, ["E", "S", "T", "rnd", "N", "R", "M", "W", "K"], per,
                          want=900 if tier == "quick" else 20000)

    def runs_for(c):
        f = c["facts"]
        L = len(c["prog"])
        region = [f["lo"] - L, f["hi"] + L + 1]
        runs = []
        for b in ("bcint", "jit"):
            for l in range(4):
                for a in ("guardl", "guardr"):
                    runs.append({"backend": b, "level": l, "mode": "unsafe", "pregrow": region, "alloc": a})
        return runs

    judged = []
    for prof in ("release", "debug"):
        executed = bf.execute(bins[prof], cases, runs_for)
        rep.count("unchecked_runs", sum(len(e[1]) for e in executed))
        judged.append((prof, executed))
    judged = adjudicate(rep, "C10", bins, None, judged)
    rep.coverage["distinct_nontrivial"] = sum(1 for c in cases if c["facts"]["hi"] - c["facts"]["lo"] >= 1
                                              and c["facts"]["steps"] > 5)
    rep.coverage["rule"] = ("cases halting by BF.tla, whose pointer excursion [lo,hi] comes from the specification's "
                            "run; the tape is pre-grown to exactly [lo-L, hi+L] (L = program length), then "
                            "execute_unsafe runs on bcint and jit at levels 0-3 with the tape flush against a guard "
                            "page on the left and on the right, in the release and the debug build; the log is "
                            "validated by TLC (BFTrace), any fault is a rejected trace; non-trivial = the pointer "
                            "moves and the run has more than 5 steps")
    settle(rep, "C10", bins, judged, shrink=False)
    return rep.finish()


# ------------------------------------------------------------------ C06 (executable half)
PRE_PROGRAMS = ["+-", ">+-<", "<+-> ", ">>>+-<<<", "<<+->>+-", "+->+-<"]


def c06_runs(tier, rep, bins):
    hv = bins["release"]
    per = {"T": 900, "S": 300, "N": 100, "rnd": 300, "M": 200, "W": 600, "K": 200, "Q": 300, "U": 300} if tier == "quick" else \
          {"T": 20000, "S": 8000, "N": 3000, "rnd": 6000, "E": 60000, "M": 4000, "W": 12000, "K": 4000, "Q": 6000,
           "U": 6000}
    sd = seed()
    pops, per = dev_pops(["T", "S", "N", "rnd", "E", "M", "W", "K", "Q", "U"], per)
    cases = override_cases() or population(hv, tier, sd, pops, per)

    def runs_release(c):
        runs = []
        for a in ("guardl", "guardr"):
            runs += config_runs({"alloc": a})
        # the budgeted entry point is bounds-checked as well (one guard side per case)
        side = "guardl" if sum(map(ord, c["id"])) % 2 else "guardr"
        runs += config_runs({"alloc": side, "mode": "limited", "budget": bf.UNLIMITED})
        # a context that was used before: a program without I/O that leaves all cells 0 and the pointer in
        # place has run on it, so the main program meets a small non-empty tape (growth on both sides at once)
        pre = PRE_PROGRAMS[sum(map(ord, c["id"])) % len(PRE_PROGRAMS)]
        for a in ("guardl", "guardr"):
            runs += config_runs({"alloc": a, "pre": pre}, [("bcint", 0), ("bcint", 2), ("jit", 1), ("jit", 3), ("irint", 2)])
        return runs

    def runs_debug(c):      # the debug build differs in the bytecode interpreter's dispatch only
        return [{"backend": "bcint", "level": l, "alloc": a} for l in (0, 2) for a in ("guardl", "guardr")]

    judged = []
    for prof, runs_for in (("release", runs_release), ("debug", runs_debug)):
        executed = bf.execute(bins[prof], cases, runs_for, screen=SCREEN)
        halting = [e for e in executed if e[3].get("refclass") == "halts"]
        rep.count("guarded_runs", sum(len(e[1]) for e in halting))
        dis = [e for e in halting if not e[3].get("agree")]
        agr = [e for e in halting if e[3].get("agree")]
        # roamers are always adjudicated; the rest is sampled
        roam = [e for e in agr if e[0]["pop"] == "T" or e[3].get("hi", 0) - e[3].get("lo", 0) > 64]
        other = [e for e in agr if e not in roam]
        random.Random(sd).shuffle(other)
        chosen = dis + roam[: (1500 if tier == "quick" else 30000)] + other[: (500 if tier == "quick" else 20000)]
        rep.count("distinct_nontrivial", sum(1 for e in chosen if e[3].get("hi", 0) - e[3].get("lo", 0) >= 8))
        rep.count("cases_moving_more_than_1000_cells",
                  sum(1 for e in chosen if e[3].get("hi", 0) - e[3].get("lo", 0) >= 1000))
        judged.append((prof, chosen))
    return adjudicate(rep, "C06", bins, None, judged)


# ------------------------------------------------------------------ C17 (executable half)
def c17_runs(tier, rep, bins):
    hv = bins["release"]
    sd = seed()
    per = {"T": 500, "S": 150} if tier == "quick" else {"T": 5000, "S": 1500, "N": 300}
    pops, per = dev_pops(["T", "S", "N"], per)
    cases = override_cases() or population(hv, tier, sd, pops, per)
    refs = pool.simple_requests(hv, [{"op": "ref", "id": c["id"], "prog": c["prog"], "w": c["w"],
                                      "input": c["input"], "maxSteps": 5000, "maxEv": 250} for c in cases])
    cases = [c for c, r in zip(cases, refs) if r and r.get("class") == "halts"]
    random.Random(sd).shuffle(cases)
    cases = cases[: (150 if tier == "quick" else 2500)]
    ks = list(range(8))

    def runs_for(c):
        runs = []
        for (b, l) in [("inplace", 0), ("irint", 2), ("bcint", 0), ("bcint", 2), ("jit", 0), ("jit", 2)]:
            for k in ks:       # the k-th tape-growth request is refused
                runs.append({"backend": b, "level": l, "alloc": "failtape", "failK": k, "failMin": 0, "stream": 1})
            for k in ks[:3]:   # the k-th allocation of any kind during execution is refused
                runs.append({"backend": b, "level": l, "alloc": "fail", "failK": k, "failMin": 0, "stream": 1})
            for k in ks[:2]:   # ... and through the budgeted entry point (a refusal is not "out of budget")
                runs.append({"backend": b, "level": l, "alloc": "fail", "failK": k, "failMin": 0, "stream": 1,
                             "mode": "limited", "budget": bf.UNLIMITED})
        # the operating system refuses the JIT's executable mapping (not a tape request, same contract)
        runs.append({"backend": "jit", "level": 2, "alloc": "failmmap", "failK": 0, "failMin": 0, "stream": 1})
        runs.append({"backend": "jit", "level": 0, "alloc": "failmmap", "failK": 0, "failMin": 0, "stream": 1,
                     "mode": "limited", "budget": bf.UNLIMITED})
        return runs

    executed = bf.execute(hv, cases, runs_for)
    refused = sum(1 for e in executed for r in e[2] if r is not None and
                  (r.get("allocFailed", 0) > 0 or "died" in r))
    rep.count("runs_with_injected_allocation_failure", sum(len(e[1]) for e in executed))
    rep.count("runs_in_which_the_refusal_was_reached", refused)
    return adjudicate(rep, "C17", bins, "release", executed), cases


def probe_lemma(rep):
    """TLAPS: the design lemma of the one-sided probe (spec/proofs/ProbeLemma.tla), for all integers."""
    import re
    import shutil
    import subprocess
    from .common import VERIF
    d = os.path.join(VERIF, "spec", "proofs")
    try:
        p = subprocess.run(["timeout", "300", "tlapm", "--threads", "8", "--cleanfp", "ProbeLemma.tla"], cwd=d,
                           stdout=subprocess.PIPE, stderr=subprocess.STDOUT, text=True)
    except OSError as e:
        rep.info("tlapm not runnable: %s" % e)
        return
    shutil.rmtree(os.path.join(d, ".tlacache"), ignore_errors=True)
    m = re.search(r"All (\d+) obligations? proved", p.stdout)
    if m:
        rep.coverage["probe_lemma_proof"] = {"tool": "tlapm (TLAPS, SMT back end)", "module": "spec/proofs/ProbeLemma.tla",
                                             "theorems": ["ProbeRight", "ProbeLeft", "WindowConvex", "RequestRestores"],
                                             "obligations": int(m.group(1)), "discharged": int(m.group(1))}
    else:
        rep.info("tlapm did not discharge ProbeLemma.tla: %s" % p.stdout[-300:])


def c06(tier):
    rep = Report("C06", "model_checking", tier)
    bins = build_harness(("release", "debug"))
    if not os.environ.get("VERIF_CASES"):
        probe_lemma(rep)
    judged = c06_runs(tier, rep, bins)
    rep.coverage["rule"] = ("cases: tape roamers (far moves of up to 700 cells per step, movers, scans over prepared "
                            "runs, revisits of old cells after growth in the other direction, loop bodies touching "
                            "both sides while moving) plus structured / network / random / exhaustive programs; "
                            "each runs on inplace and irint/bcint/jit at levels 0-3 with every allocation made "
                            "during execution placed flush against a PROT_NONE page on the left and, in a second "
                            "run, on the right (freed regions stay inaccessible), in the release and the debug "
                            "build; any fault and any log that TLC (BFTrace) rejects is a violation; non-trivial = "
                            "pointer excursion of at least 8 cells")
    rep.assumptions.append("an access outside the owned allocation by less than the distance to the guard page on "
                           "the non-flush side is only caught through its effect on the event log")
    if not os.environ.get("VERIF_CASES"):
        # model side: the bounds protocol on the executed path of the roamers' bytecode (BC.tla)
        roam = [j for j in judged if j[0]["pop"] == "T"]
        for backend in ("bcint", "jit"):
            bytecode_cross_check(rep, bins, "C06", backend, roam, 250 if tier == "quick" else 4000)
    settle(rep, "C06", bins, judged, shrink=False)
    return rep.finish()


def c17(tier):
    rep = Report("C17", "fault_enumeration", tier)
    bins = build_harness(("release",))
    rw = replay_witness()
    if rw and rw.get("api"):
        from . import props_tape as pt
        extra = {"noprobe": 1}
        if rw.get("failK") is not None:
            extra["failK"] = rw["failK"]
        reqs, traces, verdicts = pt.replay_and_validate(rep, bins["release"], [(rw["w"], rw["calls"], extra)],
                                                        "C17-replay", alloc=rw.get("alloc", "count"), stream=True,
                                                        extras=True)
        v = verdicts[traces[0]["id"]]
        if v["verdict"] != "accepted":
            rep.violation({"w": rw["w"], "calls": rw["calls"], "alloc": rw.get("alloc"), "failK": rw.get("failK"),
                           "end": traces[0]["end"], "tlc": v, "api": 1},
                          "Memory<u%d> history ended %s: %s" % (rw["w"], traces[0]["end"], v["why"]))
        return rep.finish()
    judged, cases = c17_runs(tier, rep, bins)
    rep.coverage["evaluations"] = rep.coverage.get("runs_with_injected_allocation_failure", 0)
    rep.coverage["distinct_nontrivial"] = len(cases)
    rep.coverage["rule"] = ("halting roamer / structured programs x {inplace, irint-O2, bcint-O0/O2, jit-O0/O2} x "
                            "which tape-growth request is refused (1st..8th, hook IN_TAPE_GROWTH) or which allocation of any "
                            "kind during execution is refused (1st..3rd); the outcome "
                            "(streamed event log + how the process ended) is validated by TLC (BFTrace): ending "
                            "through SIGABRT or a panic after the refusal with a prefix of the canonical log is "
                            "accepted, SIGSEGV/SIGBUS, a normal return after a refused request, or any event that "
                            "is not canonical is rejected")
    if not os.environ.get("VERIF_CASES") and not os.environ.get("VERIF_REPLAY"):
        c17_api_histories(rep, bins["release"], tier)
    settle(rep, "C17", bins, judged, shrink=False)
    return rep.finish()


def c17_api_histories(rep, hv, tier):
    """The same claim on the tape object itself (TapeTrace.tla): call histories in which the k-th
    growth request is refused, and histories that end in a request no allocator can satisfy (a
    position 2^62 cells or more away)."""
    from . import props_tape as pt
    rng = random.Random(seed() + 41)
    n = 240 if tier == "quick" else 4000
    batches = []
    for alloc in ("count", "guardl", "guardr"):
        batches.append(([(pt.WIDTHS[i % 4], pt.far_history(rng, True), {"noprobe": 1}) for i in range(n // 3)],
                        alloc, None))
    refusing = []
    for i in range(n):
        calls = pt.random_history(rng, rng.randint(5, 60), rng.choice([3, 50, 1000]))
        refusing.append((pt.WIDTHS[i % 4], calls, {"noprobe": 1, "failK": rng.randint(0, 4)}))
    batches.append((refusing, "failtape", None))
    ended = 0
    for k, (hs, alloc, _) in enumerate(batches):
        # replay_and_validate drops the extras, so the refusal index is put back on the requests
        reqs, traces, verdicts = pt.replay_and_validate(rep, hv, hs, "C17-api%d" % k, alloc=alloc, stream=True,
                                                        extras=True)
        for rq, t in zip(reqs, traces):
            v = verdicts[t["id"]]
            if t["end"] != "ok":
                ended += 1
            if v["verdict"] != "accepted":
                rep.violation({"w": rq["w"], "calls": rq["calls"][: v["pos"] + 1], "alloc": alloc,
                               "failK": rq.get("failK"), "end": t["end"], "tlc": v, "api": 1},
                              "Memory<u%d> history (allocator mode %s, refused request %s) ended %s: %s" % (
                                  rq["w"], alloc, rq.get("failK"), t["end"], v["why"]))
    rep.coverage["api_histories"] = sum(len(b[0]) for b in batches)
    rep.coverage["api_histories_ended_by_abort_or_panic"] = ended
    rep.coverage["rule"] += ("; plus call histories on Memory<C> itself, validated by TLC (TapeTrace): the k-th "
                             "growth request refused (k = 1..5), and histories ending in a write or request at a "
                             "position 2^62..2^63 cells away, which no allocator can satisfy")


CHECKS = {"C01": c01, "C02": c02, "C03": c03, "C04": c04, "C05": c05, "C06": c06, "C07": c07, "C17": c17, "C08": c08, "C10": c10}
