"""Pipeline shared by the properties whose oracle is the canonical machine
(BF.tla): case generation, execution on the real code, trace validation."""
import json
import os
import random
import re
import subprocess

from . import pool, tlc
from .common import REPO, ToolError, log, seed, workdir, NCPU

UNLIMITED = 1 << 62
CMDS = "+-<>.,[]"


# ------------------------------------------------------------------ cases
def gen_cases(hv, pop, sd, count, stdin_text=None):
    p = subprocess.run([hv, "gen", pop, str(sd), str(count)], input=stdin_text, stdout=subprocess.PIPE, text=True)
    if p.returncode != 0:
        raise ToolError("hv gen failed")
    return [json.loads(l) for l in p.stdout.splitlines() if l.strip()]


def repo_seed_programs():
    """Programs of the repository's own differential tests (fuzz regressions)
    and the short executor tests."""
    progs = []
    try:
        src = open(os.path.join(REPO, "src/exec/testdef.rs")).read()
    except OSError:
        src = ""
    for m in re.finditer(r'same_as_inplace_test\w*!\(\s*\$i,\s*"((?:[^"\\]|\\.)*)"', src):
        progs.append(m.group(1).replace("\\\"", "\"").replace("\\\\", "\\"))
    for m in re.finditer(r'let code = "((?:[^"\\]|\\.)*)";', src, re.S):
        t = m.group(1)
        t = "".join(c for c in t if c in CMDS)
        if len(t) < 400:
            progs.append(t)
    extra_path = os.path.join(os.path.dirname(os.path.dirname(os.path.abspath(__file__))), "data", "seed-programs.txt")
    if os.path.exists(extra_path):
        for l in open(extra_path):
            l = l.strip()
            if l and not l.startswith("#"):
                progs.append(l)
    out = []
    for p in progs:
        if p not in out:
            out.append(p)
    return out


SMALL_INPUTS = [[], [0], [1], [255], [2, 1], [3, 0, 7], [128, 5, 1, 2]]


def with_ids(cases, prefix):
    for i, c in enumerate(cases):
        c["id"] = "%s%d" % (prefix, i)
    return cases


# ------------------------------------------------------------------ running
def default_timeout(run):
    b = run.get("budget", 0)
    if run.get("mode") == "limited" and b < UNLIMITED:
        return 10.0 + min(b, 10 ** 8) * 2e-6
    return run.get("watchdog", 8.0)


PAD_CHARS = "padding \n(no commands here) #"


def real_text(c):
    """The text the back ends get: the case's program with `pad` comment characters inserted at `padAt`.
    The specification gets the program without them - comments are no-ops of BF.tla (MCBF: CommentNoop),
    and stepping over 70 000 of them one action at a time would only burn the step budget."""
    pad = c.get("pad", 0)
    if not pad:
        return c["prog"]
    at = c.get("padAt", 0)
    filler = (PAD_CHARS * (pad // len(PAD_CHARS) + 1))[:pad]
    return c["prog"][:at] + filler + c["prog"][at:]


def run_request(c, runs):
    r = {"op": "run", "id": c["id"], "prog": real_text(c), "w": c["w"], "input": c["input"], "runs": runs}
    if c.get("pad"):
        r["specProg"] = c["prog"]
    return r


def execute(hv, cases, runs_for, screen=None, nworkers=None, env=None):
    """cases: dicts with id, prog, w, input.  runs_for(case) -> list of run configs.
    Returns list of (case, runs, results, done)."""
    reqs = []
    for c in cases:
        r = run_request(c, runs_for(c))
        if screen:
            r["screen"] = screen
        reqs.append(r)
    res = pool.run_cases(hv, reqs, nworkers=nworkers or max(2, NCPU - 2), run_timeout=default_timeout, env=env)
    out = []
    for c, rq, rr in zip(cases, reqs, res):
        results, done = rr
        out.append((c, rq["runs"], results, done))
    # A watchdog expiry is only believed after the same run, alone on a quiet
    # pool, again fails to come back within three times the allowance.
    redo = [(k, i) for k, (c, runs, results, done) in enumerate(out)
            for i, r in enumerate(results) if r is not None and "hung" in r and not runs[i].get("expectHang")]
    confirmed = set()
    for k, i in redo[:8]:
        c, runs, results, done = out[k]
        if k in confirmed:
            continue
        rq = run_request(c, [runs[i]])
        rr = pool.run_cases(hv, [rq], nworkers=1, run_timeout=lambda run: 3 * default_timeout(run), env=env)
        r2 = rr[0][0][0]
        if "hung" not in r2:
            log("[watchdog] %s run %d finished on retry" % (c["id"], i))
            r2["run"] = i
        else:
            confirmed.add(k)      # the other hung runs of this case are believed as observed
        results[i] = r2
    return out


# ------------------------------------------------------------------ traces
def claim_of(run, result):
    """What the call claimed when it came back (see BFTrace.tla)."""
    if "died" in result:
        if result["died"] == "SIGABRT" and run.get("alloc") in ("fail", "failtape", "failmmap"):
            return "aborted", 0, "died:SIGABRT"         # the allocation-failure abort (C17)
        return "crashed", 0, "died:" + result["died"]
    if "hung" in result:
        if run.get("mode") == "limited" and run.get("budget", 0) < UNLIMITED:
            # limited execution must come back whatever the program does (C07)
            return "crashed", 0, "limited-run-with-finite-budget-%d-did-not-return" % run.get("budget", 0)
        # still running when the watchdog fired: only a canonically divergent run explains that
        return "running", 1, "hung"
    ret = result["ret"]
    if run.get("mode") == "unsafe" and run.get("pregrow") and result.get("tapeGrowths", 0) > 0:
        # C10: the unchecked run must stay inside the region it was given; a reallocation of the tape
        # (hook IN_TAPE_GROWTH, counted by the harness allocator) means it left it
        return "crashed", 0, "static-run-reallocated-the-tape-%d-times:left-the-pre-allocated-region" % \
            result["tapeGrowths"]
    if ret in ("ok", "true"):
        if run.get("inAbsent") and not result.get("fault"):
            return "returned", 0, ret     # a missing input source leaves no trace to tell stopped from complete
        return ("stopped" if result.get("fault") else "complete"), 0, ret
    if ret == "false":
        if result.get("fault"):
            return "stopped", 0, ret
        return "unfinished", (1 if run.get("budget", 0) >= UNLIMITED else 0), ret
    if ret.startswith("panic") and run.get("alloc") in ("fail", "failtape", "failmmap"):
        return "aborted", 0, ret
    return "crashed", 0, ret


def make_trace(tid, case, run, result):
    claim, must, detail = claim_of(run, result)
    logv = result.get("log")
    if logv is None:
        logv = result.get("partial", [])
    return {
        "id": tid,
        "prog": list(case["prog"]),
        "w": case["w"],
        "input": case["input"],
        "outFail": run.get("outFail", -1) if run.get("outFail") is not None else -1,
        "inFail": run.get("inFail", -1) if run.get("inFail") is not None else -1,
        "inAbsent": run.get("inAbsent", 0),
        "outAbsent": run.get("outAbsent", 0),
        "log": logv,
        "claim": claim,
        "mustFinish": must,
        "detail": detail,
        "refused": result.get("allocFailed", 0),
        "inSilent": 0,
        "accel": case.get("accel", 0),
    }


def plan_key(run):
    return (run.get("outFail", -1), run.get("inFail", -1), run.get("inAbsent", 0), run.get("outAbsent", 0))


def group_traces(executed, tag=""):
    """Builds one trace per *distinct* recording of a case (same fault plan, same
    log, same claim), remembering which configurations produced it."""
    traces, owners = [], {}
    for case, runs, results, done in executed:
        seen = {}
        for i, (run, res) in enumerate(zip(runs, results)):
            if res is None:
                continue
            t = make_trace("", case, run, res)
            key = json.dumps([plan_key(run), t["log"], t["claim"], t["mustFinish"], t["detail"]])
            if key in seen:
                owners[seen[key]].append(i)
                continue
            tid = "%s%s#%d" % (tag, case["id"], len(seen))
            t["id"] = tid
            seen[key] = tid
            owners[tid] = [i]
            traces.append(t)
    return traces, owners


def validate(traces, report, name, max_steps=6000, max_ev=300, timeout=3600, workers=None):
    """Adjudicates recordings with TLC (BFTrace).  Returns {trace id: verdict record}."""
    if not traces:
        return {}
    d = workdir(name)
    verdicts = {}
    CH = 15000
    for k0 in range(0, len(traces), CH):
        part = traces[k0:k0 + CH]
        path = os.path.join(d, "traces.ndjson" if len(traces) <= CH else "traces-%d.ndjson" % (k0 // CH))
        tlc.write_ndjson(path, part)
        res = tlc.run_tlc("BFTrace", env={"CASES": path, "MAXSTEPS": max_steps, "MAXEV": max_ev},
                          workers=workers or max(2, NCPU - 2), timeout=timeout, coverage=True)
        report.add_tlc(res)
        # per-action counts of the canonical machine (TLC -coverage): an action never taken was never exercised
        ac = report.coverage.setdefault("bf_action_coverage", {})
        for nm, (distinct, total) in res.coverage.items():
            if nm.startswith("Observe(") and nm.endswith(")"):
                ac[nm[8:-1]] = ac.get(nm[8:-1], 0) + total
        for r in res.records:
            if isinstance(r, dict) and "verdict" in r:
                verdicts[r["id"]] = r
        missing = [t["id"] for t in part if t["id"] not in verdicts]
        if missing:
            raise ToolError("TLC returned no verdict for %d traces (first: %s)\n%s" % (
                len(missing), missing[0], res.raw_tail))
        if len(traces) > CH:
            os.remove(path)
    report.count("traces_validated_against_impl", len(traces))
    return verdicts


def cfg_name(run):
    s = "%s-O%d" % (run.get("backend"), run.get("level", 0))
    if run.get("mode", "exec") != "exec":
        s += "-" + run["mode"]
        if run.get("mode") == "limited":
            s += str(run.get("budget"))
    for k in ("outFail", "inFail"):
        if run.get(k, -1) not in (-1, None):
            s += "-%s%d" % (k, run[k])
    if run.get("inAbsent"):
        s += "-noin"
    if run.get("outAbsent"):
        s += "-noout"
    if run.get("alloc", "sys") != "sys":
        s += "-" + run["alloc"]
    if run.get("profile"):
        s += "-" + run["profile"]
    if run.get("pre"):
        s += "-after(" + run["pre"] + ")"
    return s


def witness(case, run, trace, verdict, profile=None):
    w = {"prog": case["prog"], "w": case["w"], "input": case["input"], "backend": run.get("backend"),
         "level": run.get("level", 0), "mode": run.get("mode", "exec")}
    if run.get("mode") == "limited":
        w["budget"] = run.get("budget")
    for k in ("outFail", "inFail", "inAbsent", "outAbsent", "alloc", "pregrow", "pre"):
        if run.get(k) not in (None, -1, 0, "sys"):
            w[k] = run[k]
    if profile:
        w["profile"] = profile
    if case.get("pad"):
        w["pad"], w["padAt"] = case["pad"], case.get("padAt", 0)
    if case.get("accel"):
        w["accel"] = 1            # canonical run with linear loops summarised (population H)
    w["observed"] = {"log": trace["log"], "claim": trace["claim"], "detail": trace["detail"]}
    w["tlc"] = {"verdict": verdict["verdict"], "why": verdict["why"]}
    return w
