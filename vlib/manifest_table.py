"""Source of MANIFEST.json (tools/mkmanifest.py)."""

ENGINES = [
    {"name": "tlc", "path": "/verif/spec", "serves_properties": [],
     "kind_free_text": "TLA+ specifications checked with TLC 1.8: design checking, generation of behaviours, "
                       "trace validation of recordings made on the real code"},
    {"name": "hv", "path": "/verif/harness", "serves_properties": [],
     "kind_free_text": "Rust conformance harness (worker processes under a supervisor; records events at the "
                       "runtime's Read/Write boundary, replays TLC-generated histories, guard-page allocator)"},
]

BFNOTE = ("Trusted: TLC/SANY, the JSON reader of the CommunityModules, the harness recorder (what it logs is what "
          "the Read/Write objects saw) and supervisor.  Outside the exhaustively enumerated small scope the "
          "guarantee is that of the seeded populations, not a proof over all programs; cases whose canonical run "
          "exceeds the step/event caps are reported inconclusive.")

CHECKS = {
    "C04": {
        "level": "model_checking",
        "text": "Every recorded run of the in-place interpreter (interleaved input requests and output bytes, all four "
                "widths) is validated by TLC as a complete behaviour of the canonical machine BF.tla; the machine "
                "itself is model checked on all programs up to a length bound.",
        "design_ref": "DESIGN.md section 5, C04",
        "note": BFNOTE,
        "technique": "TLA+ canonical machine (BF.tla) + TLC trace validation (BFTrace.tla) of recordings of the real code",
    },
}

NOT_APPLICABLE = {}
