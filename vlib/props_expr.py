"""C15: Expr.tla - the symbolic expression algebra against concrete arithmetic."""
import os
import random

from . import pool, tlc
from .common import NCPU, Report, ToolError, build_harness, log, seed, workdir, replay_witness

VARS = [-1, 0, 1, 2]


def sigma_for(w, rng):
    m = (1 << w) - 1
    pool_vals = [0, 1, 2, 3, (1 << (w - 1)) - 1, 1 << (w - 1), m, m - 1, 5, 7, 0x55555555 & m]
    sig = [[[v, "0"] for v in VARS]]
    for _ in range(6):
        sig.append([[v, str(rng.choice(pool_vals) if rng.random() < 0.7 else rng.getrandbits(w))] for v in VARS])
    return sig


def history(rng, w, length):
    m = (1 << w) - 1
    half = 1 << (w - 1)
    consts = [0, 1, 2, 3, 4, m, m - 1, half, half, half, half + 1, half - 1, 6, 128 & m, 129 & m, 1 << (w - 2)]
    calls, ids, transparent = [], [], set()
    nid = 0

    def new(op, transp=False, **kw):
        nonlocal nid
        nid += 1
        c = {"op": op, "id": nid, "a": kw.get("a", 0), "b": kw.get("b", 0), "c": str(kw.get("c", 0))}
        if "subst" in kw:
            c["subst"] = kw["subst"]
        calls.append(c)
        return nid

    # seeds: a few variables and constants
    for v in rng.sample(VARS, 3):
        i = new("var", a=v)
        ids.append(i)
        transparent.add(i)
    for _ in range(2):
        i = new("val", c=rng.choice(consts))
        ids.append(i)
        transparent.add(i)
    if rng.random() < 0.35:
        # a power ladder: three to five product terms over the same variable set (x, x*x, x*x*x or x*y, x*x*y,
        # x*y*y ...) with coefficients around 1, -1 and the half modulus, summed and normalised - normalize()
        # pairs such terms up, and with three or more of them every pairing has to see the previous one
        x = ids[0]
        y = ids[1] if rng.random() < 0.5 else None
        base = x if y is None else new("mul", a=x, b=y)
        terms = [base]
        for _ in range(rng.randint(2, 4)):
            terms.append(new("mul", a=terms[-1] if rng.random() < 0.7 else rng.choice(terms),
                             b=x if (y is None or rng.random() < 0.5) else y))
        acc = None
        for t in terms:
            cf = new("val", c=rng.choice([1, 1, m, half, half + 1, half - 1, 3, m - 1, 2]))
            ct = new("mul", a=cf, b=t)
            acc = ct if acc is None else new("add", a=acc, b=ct)
        ids.append(acc)
        transparent.add(acc)
        ids.append(new("normalize", a=acc))
    for _ in range(length):
        k = rng.random()
        a = rng.choice(ids)
        b = rng.choice(ids)
        if k < 0.22:
            i = new("add", a=a, b=b)
            ids.append(i)
            if a in transparent and b in transparent:
                transparent.add(i)
        elif k < 0.42:
            if rng.random() < 0.3:
                b = a                      # squares: x*x, the shape normalize() rewrites
            i = new("mul", a=a, b=b)
            ids.append(i)
            if a in transparent and b in transparent:
                transparent.add(i)
        elif k < 0.47:
            i = new("neg", a=a)
            ids.append(i)
            if a in transparent:
                transparent.add(i)
        elif k < 0.52:
            i = new("val", c=rng.choice(consts))
            ids.append(i)
            transparent.add(i)
        elif k < 0.57:
            new("half", a=a)            # result id is only valid if Some; python does not use it further
        elif k < 0.66:
            i = new("normalize", a=a)
            ids.append(i)
        elif k < 0.74 and transparent:
            ta = rng.choice(sorted(transparent))
            subst = [[v, rng.choice(ids)] for v in rng.sample(VARS, rng.randint(1, 3))]
            i = new("subst", a=ta, subst=subst)
            # Some unless a variable has no replacement (never here); usable afterwards
            ids.append(i)
        elif k < 0.79:
            new("inc_of", a=a, b=rng.choice(VARS))
        elif k < 0.84:
            new("prod_inc_of", a=a, b=rng.choice(VARS))
        elif k < 0.87:
            new("const_inc_of", a=a, b=rng.choice(VARS))
        elif k < 0.90:
            new("prod_of", a=a, b=rng.choice(VARS))
        elif k < 0.93:
            new("constant", a=a)
        elif k < 0.95:
            new("constant_part", a=a)
        elif k < 0.97:
            new("identity", a=a)
        elif k < 0.985:
            new("is_zero", a=a)
        else:
            new("eq", a=a, b=b)
    return calls


def c15(tier):
    rep = Report("C15", "model_checking", tier)
    sd = seed()
    rng = random.Random(sd)
    bins = build_harness(("release",))
    hv = bins["release"]
    n, length = (1200, 30) if tier == "quick" else (20000, 45)
    reqs = []
    rw = replay_witness()
    if rw and "sigma" in rw:
        reqs.append({"op": "expr", "id": "e0", "w": rw["w"], "sigma": rw["sigma"], "calls": rw["calls"]})
        n = 0
    for k in range(n):
        w = [8, 16, 32, 64][k % 4]
        reqs.append({"op": "expr", "id": "e%d" % k, "w": w, "sigma": sigma_for(w, rng), "calls": history(rng, w, length)})
    answers = pool.simple_requests(hv, reqs, timeout=120.0)
    traces = []
    for rq, a in zip(reqs, answers):
        if a is None or a.get("end") != "ok":
            rep.violation({"w": rq["w"], "calls": rq["calls"], "observed": a},
                          "the expression API crashed or panicked: %r" % (a,))
            continue
        # sigma values as limbs for TLC
        nl = 1 if rq["w"] == 8 else rq["w"] // 8
        sig = [[[v, [(int(x) >> (8 * i)) & 255 for i in range(nl)]] for v, x in asg] for asg in rq["sigma"]]
        traces.append({"id": rq["id"], "w": rq["w"], "sigma": sig, "events": a["events"]})
    verdicts = tlc.validate_in_chunks("Expr", traces, rep, "C15", chunk=3000)
    rep.coverage["traces_validated_against_impl"] = len(traces)
    nev = sum(len(t["events"]) for t in traces)
    rep.coverage["api_calls_validated"] = nev
    ops = {}
    for t in traces:
        for e in t["events"]:
            k = e["op"] + (":none" if e["none"] else "")
            ops[k] = ops.get(k, 0) + 1
    rep.coverage["calls_by_operation"] = ops
    rep.coverage["distinct_nontrivial"] = sum(1 for t in traces if any(e["op"] == "subst" and not e["none"]
                                                                       for e in t["events"]))
    byid = {rq["id"]: rq for rq in reqs}
    for t in traces:
        v = verdicts[t["id"]]
        if v["verdict"] != "accepted":
            rq = byid[t["id"]]
            rep.violation({"w": rq["w"], "sigma": rq["sigma"], "calls": rq["calls"][: v["pos"]], "tlc": v},
                          "Expr<u%d> history rejected at call %d: %s" % (rq["w"], v["pos"], v["why"][:300]))
    if traces:
        rep.sample({"w": traces[0]["w"], "calls": reqs[0]["calls"][:8], "events": traces[0]["events"][:3]})
    rep.coverage["rule"] = ("seeded construction histories through the public API (val, var, add, mul, neg, half, "
                            "normalize, symb_evaluate, inc_of, prod_inc_of, const_inc_of, prod_of, constant, "
                            "constant_part, identity, is_zero, ==) over variables -1..2 with coefficients including "
                            "2^(W-1) and 2^W-1, at all four widths; every result is observed through evaluate() at 7 "
                            "assignments (all-zero, boundary values, random) and TLC (Expr.tla) checks the clause of "
                            "each call; non-trivial = the history contains a successful substitution")
    rep.assumptions.append("split_along is not exercised directly (only through the optimiser, C01)")
    return rep.finish()


CHECKS = {"C15": c15}
