"""Running TLC and reading its answers."""
import json
import os
import re
import shutil
import subprocess
import tempfile
import time

SPEC_DIR = os.path.join(os.path.dirname(os.path.dirname(os.path.abspath(__file__))), "spec")
JAR = "/opt/veriftools/tla/tla2tools.jar"


class TlcError(Exception):
    pass


class TlcResult:
    def __init__(self):
        self.records = []        # parsed PrintT(ToJson(..)) lines
        self.generated = 0
        self.distinct = 0
        self.depth = 0
        self.wall = 0.0
        self.violated = None     # name of a violated invariant / property, if any
        self.coverage = {}       # action name -> (distinct, total)
        self.raw_tail = ""
        self.output = ""


def _classpath():
    cp = [JAR]
    d = os.path.dirname(JAR)
    for f in sorted(os.listdir(d)):
        if f.endswith(".jar") and os.path.join(d, f) != JAR:
            cp.append(os.path.join(d, f))
    return ":".join(cp)


def run_tlc(module, cfg=None, env=None, workers=12, timeout=600, heap="8g", simulate=None, depth=None,
            coverage=False, deque=False, extra=None, seed=None, allow_violation=False):
    """Runs TLC on spec/<module>.tla with spec/<cfg>.cfg.  Returns TlcResult.
    Raises TlcError for tool errors and timeouts (never to be reported as violations)."""
    res = TlcResult()
    meta = tempfile.mkdtemp(prefix="tlcmeta-", dir=os.environ.get("VERIF_SCRATCH", "/tmp"))
    e = dict(os.environ)
    if env:
        e.update({k: str(v) for k, v in env.items()})
    jopts = ["-Xss1g"]
    if deque:
        jopts.append("-Dtlc2.tool.queue.IStateQueue=StateDeque")
    e["JAVA_TOOL_OPTIONS"] = " ".join(jopts)
    # java is started directly (as the `tlc' wrapper does) so that -Xss also applies to the main thread,
    # which computes the initial states (bracket tables of long programs are deep recursions)
    cmd = ["timeout", "-k", "10", str(int(timeout)), "java", "-XX:+UseParallelGC", "-Xss1g",
           "-Djava.io.tmpdir=" + meta,             # SANY's scratch directories go with the metadir
           "-cp", _classpath(),
           "tlc2.TLC", "-workers", str(workers), "-metadir", meta, "-cleanup", "-noGenerateSpecTE"]
    if coverage:
        cmd += ["-coverage", "1"]
    if simulate is not None:
        cmd += ["-simulate", "num=%d" % simulate]
    if depth is not None:
        cmd += ["-depth", str(depth)]
    if seed is not None:
        cmd += ["-seed", str(seed)]
    if extra:
        cmd += extra
    cmd += ["-config", (cfg or module) + ".cfg", module + ".tla"]
    t0 = time.time()
    try:
        p = subprocess.run(cmd, cwd=SPEC_DIR, env=e, stdout=subprocess.PIPE, stderr=subprocess.STDOUT, text=True)
    finally:
        shutil.rmtree(meta, ignore_errors=True)
    res.wall = time.time() - t0
    out = p.stdout
    res.output = out
    res.raw_tail = "\n".join(out.splitlines()[-40:])
    for line in out.splitlines():
        if line.startswith('"{') or line.startswith('"['):
            try:
                res.records.append(json.loads(json.loads(line)))
            except ValueError:
                pass
            continue
        m = re.match(r"^(\d[\d,]*) states generated, (\d[\d,]*) distinct states found", line)
        if m:
            res.generated = int(m.group(1).replace(",", ""))
            res.distinct = int(m.group(2).replace(",", ""))
        m = re.match(r"^The depth of the complete state graph search is (\d+)", line)
        if m:
            res.depth = int(m.group(1))
        m = re.match(r"^Error: Invariant (\S+) is violated", line)
        if m:
            res.violated = m.group(1)
        m = re.match(r"^Error: Action property (\S+) is violated", line)
        if m:
            res.violated = m.group(1)
        if line.startswith("Error: Temporal properties were violated"):
            res.violated = "temporal"
        m = re.match(r"^<(\w+) line \d+, col \d+ to line \d+, col \d+ of module (\w+)>: (\d+):(\d+)", line)
        if m:
            res.coverage[m.group(1)] = (int(m.group(3)), int(m.group(4)))
        m = re.match(r"^<(\w+) line \d+, col \d+ to line \d+, col \d+ of module (\w+) "
                     r"\((\d+) (\d+) (\d+) (\d+)\)>: (\d+):(\d+)", line)
        if m:
            # an action that is an operator application: name it by the text at the call site, e.g. Observe(Inc)
            try:
                src = open(os.path.join(SPEC_DIR, m.group(2) + ".tla")).read().splitlines()
                text = src[int(m.group(3)) - 1][int(m.group(4)) - 1:int(m.group(6))]
            except (OSError, IndexError):
                text = m.group(1)
            res.coverage[text] = (int(m.group(7)), int(m.group(8)))
    if p.returncode == 124 or p.returncode == 137:
        raise TlcError("TLC timed out after %ds on %s" % (timeout, module))
    ok_codes = (0,)
    if res.violated is not None and allow_violation:
        return res
    if p.returncode not in ok_codes:
        raise TlcError("TLC failed (exit %d) on %s:\n%s" % (p.returncode, module, res.raw_tail))
    return res


def write_ndjson(path, records):
    with open(path, "w") as f:
        for r in records:
            f.write(json.dumps(r, separators=(",", ":")) + "\n")


def validate_in_chunks(module, traces, rep, name, chunk=4000, env=None, workers=None, timeout=3600, cfg=None):
    """Runs a trace specification over `traces` in chunks (TLC keeps every initial state and the
    parsed cases in memory) and returns {id: verdict record}.  Raises TlcError when a verdict is missing."""
    from .common import workdir, NCPU
    d = workdir(name)
    out = {}
    for k in range(0, len(traces), chunk):
        part = traces[k:k + chunk]
        path = os.path.join(d, "traces-%d.ndjson" % (k // chunk))
        write_ndjson(path, part)
        e = {"CASES": path}
        if env:
            e.update(env)
        res = run_tlc(module, cfg=cfg, env=e, workers=workers or max(2, NCPU - 2), timeout=timeout)
        rep.add_tlc(res)
        got = {r["id"]: r for r in res.records if isinstance(r, dict) and "verdict" in r}
        missing = [t["id"] for t in part if t["id"] not in got]
        if missing:
            raise TlcError("%s returned no verdict for %d of %d traces (first: %s)\n%s" % (
                module, len(missing), len(part), missing[0], res.raw_tail))
        out.update(got)
        if len(traces) > chunk:
            os.remove(path)
    return out
