"""Supervised pool of harness worker processes.

Every execution of the real code happens in a worker process.  The supervisor
knows which run of which case is in flight in every worker, so a worker that is
killed by a signal or exceeds its watchdog becomes an *observation* attributed
to that run ({"died": "SIGSEGV"} / {"hung": 1}), never a lost case.
"""
import json
import os
import queue
import select
import signal
import subprocess
import threading
import time


class Worker:
    def __init__(self, binary, env=None, prefix=None):
        self.binary = binary
        self.env = env
        self.prefix = prefix or []
        self.proc = None
        self.buf = b""
        self.start()

    def start(self):
        e = dict(os.environ)
        if self.env:
            e.update(self.env)
        self.proc = subprocess.Popen(self.prefix + [self.binary, "worker"], stdin=subprocess.PIPE, stdout=subprocess.PIPE,
                                     stderr=subprocess.DEVNULL, env=e, bufsize=0)
        self.buf = b""

    def send(self, obj):
        try:
            self.proc.stdin.write((json.dumps(obj) + "\n").encode())
            self.proc.stdin.flush()
            return True
        except (BrokenPipeError, OSError):
            return False

    def readline(self, timeout):
        """Returns a parsed line, or ("timeout",) / ("eof", returncode)."""
        deadline = time.time() + timeout
        while True:
            nl = self.buf.find(b"\n")
            if nl >= 0:
                line = self.buf[:nl]
                self.buf = self.buf[nl + 1:]
                if not line.strip():
                    continue
                try:
                    return json.loads(line)
                except ValueError:
                    return {"garbage": line.decode(errors="replace")}
            left = deadline - time.time()
            if left <= 0:
                return ("timeout",)
            r, _, _ = select.select([self.proc.stdout], [], [], left)
            if not r:
                return ("timeout",)
            chunk = os.read(self.proc.stdout.fileno(), 1 << 16)
            if not chunk:
                rc = self.proc.wait()
                return ("eof", rc)
            self.buf += chunk

    def kill(self):
        try:
            self.proc.kill()
        except OSError:
            pass
        try:
            self.proc.wait(timeout=5)
        except Exception:
            pass

    def close(self):
        try:
            self.proc.stdin.close()
        except OSError:
            pass
        try:
            self.proc.wait(timeout=2)
        except Exception:
            self.kill()


def signame(rc):
    if rc is not None and rc < 0:
        try:
            return signal.Signals(-rc).name
        except ValueError:
            return "SIG%d" % -rc
    return "exit%d" % (rc if rc is not None else -1)


def _run_case(w, req, run_timeout):
    """Executes one {"op":"run"} request; returns (list of per-run results, done line)."""
    runs = req["runs"]
    results = [None] * len(runs)
    pending = list(range(len(runs)))          # original indices still to do
    done = {}
    abnormal = False
    got_done = False
    while pending or not got_done:
        sub = dict(req)
        sub["runs"] = [runs[i] for i in pending]
        mapping = list(pending)
        if not w.send(sub):
            w.kill()
            w.start()
            if not w.send(sub):
                raise RuntimeError("cannot talk to worker")
        current = None                          # index into mapping
        evs = {}
        notes = 0
        finished_ok = False
        while True:
            tmo = run_timeout(runs[mapping[current]]) if current is not None else 60.0
            msg = w.readline(tmo)
            if isinstance(msg, tuple):
                # worker hung or died: attribute to the in-flight run
                if current is None:
                    current = 0
                orig = mapping[current]
                if msg[0] == "timeout":
                    w.kill()
                    results[orig] = {"hung": 1, "partial": evs.get(current, []), "allocFailed": notes}
                else:
                    results[orig] = {"died": signame(msg[1]), "partial": evs.get(current, []),
                                     "allocFailed": notes}
                w.start()
                abnormal = True
                pending = [i for i in pending if results[i] is None]
                break
            if "bye" in msg:               # worker recycles itself; resend to a fresh one
                w.close()
                w.start()
                break
            if "refusednote" in msg:
                notes += 1
                continue
            if "start" in msg:
                current = msg["run"]
                notes = 0
                continue
            if "ev" in msg:
                evs.setdefault(msg["run"], []).append(msg["ev"])
                continue
            if "done" in msg:
                finished_ok = True
                got_done = True
                if "agree" in done and not done["agree"]:
                    msg["agree"] = 0
                done = msg
                break
            if "run" in msg:
                k = msg["run"]
                orig = mapping[k]
                if "same" in msg:
                    msg = dict(msg)
                    msg["same"] = mapping[msg["same"]]
                msg["run"] = orig
                results[orig] = msg
                continue
            # anything else (error lines) is attached to the case
            if "error" in msg or "garbage" in msg:
                raise RuntimeError("worker protocol error: %r" % (msg,))
        if finished_ok:
            pending = [i for i in pending if results[i] is None]
            if pending and "refclass" in done and done["refclass"] != "halts":
                pending = []                    # the worker declined to run a non-halting case
            if pending:
                raise RuntimeError("worker finished without answering runs %r" % pending)
    # resolve "same" references into explicit logs
    for r in results:
        if r is not None and "same" in r and "log" not in r:
            r["log"] = results[r["same"]]["log"]
    if abnormal and "agree" in done:
        done["agree"] = 0
    return results, done


def run_cases(binary, requests, nworkers=12, run_timeout=lambda run: 10.0, env=None, progress=None):
    """Runs all requests (op=run) on a pool; returns results in request order."""
    q = queue.Queue()
    for i, r in enumerate(requests):
        q.put((i, r))
    out = [None] * len(requests)
    errors = []

    def loop():
        w = Worker(binary, env)
        try:
            while True:
                try:
                    i, req = q.get_nowait()
                except queue.Empty:
                    break
                try:
                    out[i] = _run_case(w, req, run_timeout)
                except Exception as e:       # tool error, not an observation
                    errors.append("%s: %s" % (req.get("id"), e))
                    w.kill()
                    w.start()
        finally:
            w.close()

    threads = [threading.Thread(target=loop, daemon=True) for _ in range(min(nworkers, max(1, len(requests))))]
    for t in threads:
        t.start()
    for t in threads:
        t.join()
    if errors:
        raise RuntimeError("worker errors: " + "; ".join(errors[:5]))
    return out


def simple_requests(binary, requests, nworkers=12, timeout=30.0, env=None):
    """One request -> one reply line ops (ref, tape, ...).  A worker death or a
    timeout is returned as {"died":..} / {"hung":1} for that request."""
    q = queue.Queue()
    for i, r in enumerate(requests):
        q.put((i, r))
    out = [None] * len(requests)

    def loop():
        w = Worker(binary, env)
        try:
            while True:
                try:
                    i, req = q.get_nowait()
                except queue.Empty:
                    break
                if not w.send(req):
                    w.kill()
                    w.start()
                    w.send(req)
                while True:
                    msg = w.readline(timeout)
                    if isinstance(msg, tuple):
                        if msg[0] == "timeout":
                            w.kill()
                            out[i] = {"hung": 1}
                        else:
                            out[i] = {"died": signame(msg[1])}
                        w.start()
                        break
                    if "bye" in msg:
                        w.close()
                        w.start()
                        w.send(req)
                        continue
                    out[i] = msg
                    break
        finally:
            w.close()

    threads = [threading.Thread(target=loop, daemon=True) for _ in range(min(nworkers, max(1, len(requests))))]
    for t in threads:
        t.start()
    for t in threads:
        t.join()
    return out


def stream_requests(binary, requests, nworkers=12, timeout=30.0, env=None):
    """Tape histories in stream mode: the worker prints {"pending": call} before and {"event": ..}
    after every call, so that a history that ends with the process still has its completed calls
    and the call that was pending.  Returns per request
    {"events", "end", "refused", "pending"} ("end" is "ok", "panic", "abort", a signal name or "hung")."""
    q = queue.Queue()
    for i, r in enumerate(requests):
        r = dict(r)
        r["stream"] = 1
        q.put((i, r))
    out = [None] * len(requests)

    def loop():
        w = Worker(binary, env)
        try:
            while True:
                try:
                    i, req = q.get_nowait()
                except queue.Empty:
                    break
                if not w.send(req):
                    w.kill()
                    w.start()
                    w.send(req)
                events, pending, notes = [], None, 0
                while True:
                    msg = w.readline(timeout)
                    if isinstance(msg, tuple):
                        if msg[0] == "timeout":
                            w.kill()
                            end = "hung"
                        else:
                            end = signame(msg[1])
                            if end == "SIGABRT":
                                end = "abort"
                        out[i] = {"events": events, "end": end, "refused": notes, "pending": pending}
                        w.start()
                        break
                    if "bye" in msg:
                        w.close()
                        w.start()
                        w.send(req)
                        events, pending, notes = [], None, 0
                        continue
                    if "refusednote" in msg:
                        notes += 1
                        continue
                    if "pending" in msg:
                        pending = msg["pending"]
                        continue
                    if "event" in msg:
                        events.append(msg["event"])
                        pending = None
                        continue
                    if "end" in msg:
                        out[i] = {"events": msg.get("events", events), "end": msg["end"],
                                  "refused": msg.get("refused", notes), "pending": pending}
                        break
                    if "error" in msg:
                        out[i] = {"events": events, "end": "error:" + str(msg["error"]), "refused": notes,
                                  "pending": pending}
                        break
        finally:
            w.close()

    threads = [threading.Thread(target=loop, daemon=True) for _ in range(min(nworkers, max(1, len(requests))))]
    for t in threads:
        t.start()
    for t in threads:
        t.join()
    return out
