import subprocess, shutil, os, sys, time, re
SRC='/tmp/scratch/hpbf/src'
M=[
 ("opt_m2","opt.rs","if stored_cond == C::ZERO {\n                OptLoop::at_most_once(at_least_once)","if stored_cond == C::ZERO {\n                OptLoop::at_most_once(true)"),
 ("opt_m3","opt.rs","if matches!(kind, OptWrite::Maybe) || !loop_anal.at_least_once {","if matches!(kind, OptWrite::Maybe) {"),
 ("opt_m4","opt.rs","(!anal.clobbered.contains(&(var - self.shift)) && !anal.has_shift)","(!anal.clobbered.contains(&var) && !anal.has_shift)"),
 ("opt_m5","opt.rs","} else if self.reads.contains(&var) || self.had_shift {","} else if self.reads.contains(&var) {"),
 ("opt_m6","opt.rs","if sub_anal.loop_anal.at_least_once {\n                        for var in written {","if true {\n                        for var in written {"),
 ("opt_m7","opt.rs","Some(Expr::val(mul.wrapping_pow(c)).mul(Expr::var(var))),\n                                None,\n                                None,","Some(Expr::val(mul.wrapping_pow(c.wrapping_add(C::ONE))).mul(Expr::var(var))),\n                                None,\n                                None,"),
 ("opt_m8","opt.rs",".add(before.add(expr.mul(expr_neg_one.mul(inc))));",".add(before.add(expr.mul(expr.mul(inc))));"),
 ("opt_m9","opt.rs","if let None | Some(OptWrite::Maybe) = self.written.get(&var) {","if let None = self.written.get(&var) {"),
 ("opt_b1","opt.rs","for _ in 1..(level.min(3)) {","for _ in 1..(level.min(3)).min(3) {"),
 ("opt_m10","opt.rs","} else if inc == C::ZERO {\n                    OptLoop::infinite(at_least_once)","} else if inc == C::ZERO {\n                    OptLoop::unknown(true)"),
 ("opt_m11","opt.rs","if loop_anal.no_continue {\n            self.no_return = true;","if loop_anal.no_continue || !loop_anal.finite {\n            self.no_return = true;"),
 ("ir_m12","ir.rs","Some(inc) if inc.is_odd()))","Some(inc) if inc != C::ZERO))"),
 ("ir_m13","ir.rs","insts.push(Instr::Input { dst: *shift });\n                    buff.insert(*shift, C::ZERO);","insts.push(Instr::Input { dst: *shift });"),
 ("bc_m16","bc.rs","&& !self.has_write_in_range(mem, first_use + 1, last_use)","&& !self.has_write_in_range(mem, first_use + 2, last_use)"),
 ("bc_m17","bc.rs","if self.is_target[i] {\n                zerod.clear();\n            }","if false {\n                zerod.clear();\n            }"),
 ("bc_m19","bc.rs","} else {\n                            for &var in &sub_anal.writes {\n                                self.values.remove(&GvnExpr::Mem(var));\n                            }\n                        }\n                    }\n                    let prev_exprs","} else {\n                        }\n                    }\n                    let prev_exprs"),
 ("bc_m22","bc.rs","Instr::Out(mem) => {\n                    dead.remove(&mem);\n                }","Instr::Out(_mem) => {\n                }"),
 ("bc_m23","bc.rs","&& !self.has_write_in_range(mem, i, last_use)","&& !self.has_write_in_range(mem, i + 1, last_use)"),
 ("ops_m23","exec/bcint/ops.rs",".check_ptr(mem.wrapping_offset((*cxt).max_accessed))",".check_ptr(mem.wrapping_offset((*cxt).max_accessed - 1))"),
 ("ops_m24","exec/bcint/ops.rs","(r0, r1) = Dst::write(cxt, mem, ip, r0, r1, val0.wrapping_add(val1.wrapping_neg()));","(r0, r1) = Dst::write(cxt, mem, ip, r0, r1, val1.wrapping_add(val0.wrapping_neg()));"),
 ("ops_m25","exec/bcint/ops.rs","let result = *mem.offset(off);\n        *mem.offset(off) = C::ZERO;","let result = *mem.offset(off);"),
 ("ops_m27","exec/bcint/ops.rs","if (*cxt).context.budget <= cost {","if (*cxt).context.budget < cost {"),
 ("cg_m28","exec/basejit/codegen.rs","let probe = if shift < 0 {\n                        program.min_accessed\n                    } else {\n                        program.max_accessed\n                    };","let probe = if shift <= 0 {\n                        program.max_accessed\n                    } else {\n                        program.min_accessed\n                    };"),
 ("cg_m29","exec/basejit/codegen.rs","live &= 0xfff0;","live &= 0xffe0;"),
 ("cg_m30","exec/basejit/codegen.rs","self.emit_load::<C>(idx1, Reg::scr0());\n                        self.emit_sub_to_reg::<C>(idx2, Reg::scr0());","self.emit_load::<C>(idx2, Reg::scr0());\n                        self.emit_sub_to_reg::<C>(idx1, Reg::scr0());"),
 ("cg_b4","exec/basejit/codegen.rs","self.emit_cmp_rm64_i8(RegMem::Reg(Reg::scr0()), 2);","self.emit_cmp_rm64_i8(RegMem::Reg(Reg::scr0()), 3);"),
 ("rt_b5","runtime.rs","(_, 0) => new_size - self.size,","(_, 0) => needed_below,"),
 ("rt_m33","runtime.rs",".max((new_size - self.size) / 2)\n                .min(new_size - self.size - needed_above),",".max((new_size - self.size) / 2),"),
 ("rt_m34","runtime.rs","pub fn read(&self, offset: isize) -> C {\n        let ptr = self.offset.wrapping_add_signed(offset);\n        if ptr < self.size {","pub fn read(&self, offset: isize) -> C {\n        let ptr = self.offset.wrapping_add_signed(offset);\n        if ptr < self.size && ptr != 0 {"),
 ("rt_m35","runtime.rs","if input.read(&mut result).ok()? == 0 {\n                Some(0)","if input.read(&mut result).ok()? == 0 {\n                Some(255)"),
 ("inp_m36","exec/inplace.rs","} else if code_bytes[pc] == b'[' {\n                                cnt += 1;","} else if code_bytes[pc] == b'[' && cnt == 0 {\n                                cnt += 1;"),
 ("lib_m39","lib.rs","impl CellType for u64 {","impl CellType for u64 {\n    fn wrapping_inv(self) -> Option<Self> { if self & 1 == 1 { let mut x: u64 = self; for _ in 0..4 { x = x.wrapping_mul(2u64.wrapping_sub(self.wrapping_mul(x))); } Some(x) } else { None } }"),
 ("lib_m40","lib.rs","fn wrapping_shl(self, by: u32) -> Self {\n        self.checked_shl(by).unwrap_or(0)\n    }\n\n    fn trailing_zeros(self) -> u32 {\n        self.trailing_zeros()\n    }\n}\n\n#[cfg(test)]","fn wrapping_shl(self, by: u32) -> Self {\n        self.wrapping_shl(by)\n    }\n\n    fn trailing_zeros(self) -> u32 {\n        self.trailing_zeros()\n    }\n}\n\n#[cfg(test)]"),
]
only = sys.argv[1:] 
res=open('/tmp/scratch/mut/results.txt','a')
for name,f,old,new in M:
    if only and name not in only: continue
    path=os.path.join(SRC,f); orig=open(path).read()
    if orig.count(old)!=1:
        res.write(f"{name} NOAPPLY count={orig.count(old)}\n"); res.flush(); continue
    open(path,'w').write(orig.replace(old,new))
    try:
        t0=time.time()
        r=subprocess.run("cd /tmp/scratch/hpbf && timeout -k 5 240 cargo test --offline --lib 2>&1 | tail -3",shell=True,capture_output=True,text=True,timeout=900); subprocess.run("for p in $(pgrep -f target/debug/deps/hpbf); do kill -9 $p; done",shell=True)
        tests = 'ok' if 'test result: ok' in r.stdout else 'HANG' if 'test result' not in r.stdout and 'error' not in r.stdout else ('FAILS' if 'test result: FAILED' in r.stdout or 'failed' in r.stdout else 'BUILDERR:'+r.stdout[-200:].replace('\n',' '))
        b=subprocess.run("cd /tmp/scratch/fz && cargo build --offline --release 2>&1 | tail -1",shell=True,capture_output=True,text=True,timeout=900)
        det=[]
        for mode in "rsnt":
            try:
                p=subprocess.run(f"cd /tmp/scratch/fz && MODE={mode} timeout 100 ./target/release/fz 11 6000 | tail -1",shell=True,capture_output=True,text=True,timeout=130)
                out=p.stdout.strip()
                m=re.search(r'fails: \{(.*)\}',out)
                if m is None: det.append(f"{mode}:CRASH/TIMEOUT")
                else:
                    keys=re.findall(r'"(\w+) O(\d) w(\d+)": (\d+)',m.group(1))
                    # ignore baseline known: bcint notfin etc can't separate; report counts per backend
                    agg={}
                    for be,o,w,c in keys: agg[be]=agg.get(be,0)+int(c)
                    det.append(f"{mode}:{agg}")
            except subprocess.TimeoutExpired: det.append(f"{mode}:TIMEOUT")
        res.write(f"{name} tests={tests} {' '.join(det)} ({time.time()-t0:.0f}s)\n"); res.flush()
    finally:
        open(path,'w').write(orig)
res.write("DONE\n"); res.flush()
