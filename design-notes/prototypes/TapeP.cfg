SPECIFICATION Spec
INVARIANTS Refines ReadOk AccOk
CONSTANTS R = 3 Depth = 4 MaxSize = 40
CHECK_DEADLOCK FALSE
