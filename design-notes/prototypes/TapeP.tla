---- MODULE TapeP ----
EXTENDS Integers, Sequences, TLC, FiniteSets
CONSTANTS R, Depth, MaxSize   \* offsets range -R..R
Off == (-R)..R
Vals == {1, 2}
VARIABLES size, offset, buf, cells, ptr, depth, last
vars == <<size, offset, buf, cells, ptr, depth, last>>

Max(a,b) == IF a > b THEN a ELSE b
Min(a,b) == IF a < b THEN a ELSE b
Cell(j) == IF j \in DOMAIN cells THEN cells[j] ELSE 0
Base == ptr - offset

Init == size = 0 /\ offset = 0 /\ buf = <<>> /\ cells = <<>> /\ ptr = 0 /\ depth = 0 /\ last = <<"init">>

\* result of make_accessible(s,e) as a record [size, offset, buf]
Grow(sz, off, bf, s, e) ==
  LET sp == off + s  ep == off + e
      nb == IF sp < 0 THEN -sp ELSE 0
      na == IF ep > sz THEN ep - sz ELSE 0
  IN IF nb = 0 /\ na = 0 THEN [size |-> sz, offset |-> off, buf |-> bf, grew |-> FALSE]
     ELSE LET ns == sz + Max(sz \div 2, nb + na)
              ab == IF nb = 0 THEN 0 ELSE IF na = 0 THEN ns - sz ELSE Min(Max(nb, (ns - sz) \div 2), ns - sz - na)
          IN [size |-> ns, offset |-> off + ab,
              buf |-> [i \in 1..ns |-> IF i > ab /\ i <= ab + sz THEN bf[i - ab] ELSE 0], grew |-> TRUE]

Mov(d) == /\ offset' = offset + d /\ ptr' = ptr + d /\ last' = <<"mov", d>> /\ UNCHANGED <<size, buf, cells>>
Read(o) == LET idx == offset + o  r == IF idx >= 0 /\ idx < size THEN buf[idx+1] ELSE 0 IN
           /\ last' = <<"read", o, r, Cell(ptr + o)>> /\ UNCHANGED <<size, offset, buf, cells, ptr>>
Check(o) == LET idx == offset + o IN /\ last' = <<"check", o, idx >= 0 /\ idx < size>> /\ UNCHANGED <<size, offset, buf, cells, ptr>>
Write(o, v) == LET idx == offset + o IN
   /\ IF idx >= 0 /\ idx < size THEN /\ buf' = [buf EXCEPT ![idx+1] = v] /\ UNCHANGED <<size, offset>>
      ELSE LET g == Grow(size, offset, buf, o, o+1) IN
           /\ size' = g.size /\ offset' = g.offset /\ buf' = [g.buf EXCEPT ![g.offset + o + 1] = v]
   /\ cells' = (IF (ptr+o) \in DOMAIN cells THEN [cells EXCEPT ![ptr+o] = v] ELSE cells @@ ((ptr+o) :> v))
   /\ last' = <<"write", o, v>> /\ UNCHANGED ptr
MakeAcc(s, e) == LET g == Grow(size, offset, buf, s, e) IN
   /\ size' = g.size /\ offset' = g.offset /\ buf' = g.buf /\ last' = <<"acc", s, e>> /\ UNCHANGED <<cells, ptr>>

Next == /\ depth < Depth /\ depth' = depth + 1
        /\ \/ \E d \in Off : Mov(d)
           \/ \E o \in Off : Read(o)
           \/ \E o \in Off : Check(o)
           \/ \E o \in Off, v \in Vals : Write(o, v)
           \/ \E s \in Off, e \in Off : s <= e /\ MakeAcc(s, e)
Spec == Init /\ [][Next]_vars

Refines == /\ \A i \in 1..size : buf[i] = Cell(Base + i - 1)
           /\ \A j \in DOMAIN cells : cells[j] # 0 => (j >= Base /\ j < Base + size)
ReadOk == last[1] = "read" => last[3] = last[4]
AccOk == last[1] = "acc" => \A o \in last[2]..(last[3]-1) : offset + o >= 0 /\ offset + o < size
Bounded == size <= MaxSize
View == <<size, offset, buf, cells, ptr, depth>>
====
