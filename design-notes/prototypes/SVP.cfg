SPECIFICATION Spec
INVARIANTS AtMostOnce ExactlyOnceAtEnd
CONSTANTS N = 2 MaxOps = 5 MaxId = 4
CHECK_DEADLOCK FALSE
