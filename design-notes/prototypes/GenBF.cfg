SPECIFICATION Spec
INVARIANT Emit
CHECK_DEADLOCK FALSE
CONSTANTS MaxLen = 5 MaxDepth = 2 MaxSteps = 600 MaxEv = 20 M = 256
