---- MODULE GenBF ----
EXTENDS Integers, Sequences, TLC, Json, FiniteSets
CONSTANTS MaxLen, MaxDepth, MaxSteps, MaxEv, M
Toks == {"+", "-", ">", "<", ".", ","}
InBytes == {0, 1, 255}
VARIABLES phase, prog, open, pc, ptr, tape, inp, eof, ev, steps
vars == <<phase, prog, open, pc, ptr, tape, inp, eof, ev, steps>>

RECURSIVE MatchFrom(_,_,_,_)
MatchFrom(p, i, stack, acc) ==
  IF i > Len(p) THEN acc
  ELSE IF p[i] = "[" THEN MatchFrom(p, i+1, <<i>> \o stack, acc)
  ELSE IF p[i] = "]" THEN MatchFrom(p, i+1, Tail(stack), (i :> Head(stack)) @@ (Head(stack) :> i) @@ acc)
  ELSE MatchFrom(p, i+1, stack, acc)

Init == /\ phase = "gen" /\ prog = <<>> /\ open = 0 /\ pc = 1 /\ ptr = 0 /\ tape = <<>> /\ inp = <<>> /\ eof = FALSE /\ ev = <<>> /\ steps = 0

Gen == /\ phase = "gen"
       /\ \/ /\ Len(prog) + open < MaxLen /\ \E t \in Toks : prog' = Append(prog, t) /\ open' = open /\ phase' = phase
          \/ /\ Len(prog) + open + 1 < MaxLen /\ open < MaxDepth /\ prog' = Append(prog, "[") /\ open' = open + 1 /\ phase' = phase
          \/ /\ open > 0 /\ prog[Len(prog)] # "[" /\ prog' = Append(prog, "]") /\ open' = open - 1 /\ phase' = phase
          \/ /\ open = 0 /\ Len(prog) > 0 /\ phase' = "run" /\ UNCHANGED <<prog, open>>
       /\ UNCHANGED <<pc, ptr, tape, inp, eof, ev, steps>>

Cell(p) == IF p \in DOMAIN tape THEN tape[p] ELSE 0
Put(p, v) == IF p \in DOMAIN tape THEN [tape EXCEPT ![p] = v] ELSE tape @@ (p :> v)
Jump == MatchFrom(prog, 1, <<>>, <<>>)

Run == /\ phase = "run"
       /\ IF pc > Len(prog) \/ steps >= MaxSteps \/ Len(ev) >= MaxEv
          THEN phase' = "done" /\ UNCHANGED <<prog, open, pc, ptr, tape, inp, eof, ev, steps>>
          ELSE LET op == prog[pc] IN
            /\ steps' = steps + 1 /\ UNCHANGED <<phase, prog, open>>
            /\ CASE op = "+" -> tape' = Put(ptr, (Cell(ptr)+1) % M) /\ pc' = pc+1 /\ UNCHANGED <<ptr, inp, eof, ev>>
                 [] op = "-" -> tape' = Put(ptr, (Cell(ptr)-1) % M) /\ pc' = pc+1 /\ UNCHANGED <<ptr, inp, eof, ev>>
                 [] op = ">" -> ptr' = ptr+1 /\ pc' = pc+1 /\ UNCHANGED <<tape, inp, eof, ev>>
                 [] op = "<" -> ptr' = ptr-1 /\ pc' = pc+1 /\ UNCHANGED <<tape, inp, eof, ev>>
                 [] op = "." -> ev' = Append(ev, Cell(ptr) % 256) /\ pc' = pc+1 /\ UNCHANGED <<tape, ptr, inp, eof>>
                 [] op = "," -> /\ \/ /\ ~eof /\ \E b \in InBytes : tape' = Put(ptr, b) /\ inp' = Append(inp, b) /\ eof' = eof /\ ev' = Append(ev, -1-b)
                                   \/ /\ tape' = Put(ptr, 0) /\ eof' = TRUE /\ inp' = inp /\ ev' = Append(ev, -1000)
                                /\ pc' = pc+1 /\ UNCHANGED <<ptr>>
                 [] op = "[" -> pc' = (IF Cell(ptr) = 0 THEN Jump[pc]+1 ELSE pc+1) /\ UNCHANGED <<tape, ptr, inp, eof, ev>>
                 [] op = "]" -> pc' = (IF Cell(ptr) # 0 THEN Jump[pc]+1 ELSE pc+1) /\ UNCHANGED <<tape, ptr, inp, eof, ev>>
Next == Gen \/ Run
Spec == Init /\ [][Next]_vars
Emit == phase = "done" => PrintT(<<"TRACE", ToJson([prog |-> prog, inp |-> inp, ev |-> ev, steps |-> steps, halted |-> (pc > Len(prog))])>>)
====
