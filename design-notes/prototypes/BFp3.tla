---- MODULE BFp3 ----
EXTENDS Integers, Sequences, TLC, Json, IOUtils, FiniteSets

Cases == ndJsonDeserialize(IOEnv.CASES)
NC == Len(Cases)
MaxSteps == 5000
MaxEv == 100

RECURSIVE MatchFrom(_,_,_,_)
\* scan forward computing for each '[' its matching ']' : returns function pos->pos
MatchFrom(prog, i, stack, acc) ==
  IF i > Len(prog) THEN acc
  ELSE IF prog[i] = "[" THEN MatchFrom(prog, i+1, <<i>> \o stack, acc)
  ELSE IF prog[i] = "]" THEN MatchFrom(prog, i+1, Tail(stack), (i :> Head(stack)) @@ (Head(stack) :> i) @@ acc)
  ELSE MatchFrom(prog, i+1, stack, acc)

Jump == [c \in 1..NC |-> MatchFrom(Cases[c].prog, 1, <<>>, <<>>)]

VARIABLES c, pc, ptr, tape, ip, ev, steps, done
vars == <<c, pc, ptr, tape, ip, ev, steps, done>>

M(cc) == Cases[cc].m   \* modulus, 0 = wide

Init == /\ c \in 1..NC /\ pc = 1 /\ ptr = 0 /\ tape = <<>> /\ ip = 1 /\ ev = <<>> /\ steps = 0 /\ done = FALSE

Cell(p) == IF p \in DOMAIN tape THEN tape[p] ELSE 0
Put(p, v) == IF p \in DOMAIN tape THEN [tape EXCEPT ![p] = v] ELSE tape @@ (p :> v)
Wrap(v) == IF M(c) = 0 THEN v ELSE v % M(c)

Step ==
  /\ ~done
  /\ LET prog == Cases[c].prog IN
     IF pc > Len(prog) \/ steps >= MaxSteps \/ Len(ev) >= MaxEv THEN
        /\ done' = TRUE /\ UNCHANGED <<c, pc, ptr, tape, ip, ev, steps>>
     ELSE LET op == prog[pc] IN
       /\ steps' = steps + 1 /\ done' = FALSE /\ c' = c
       /\ CASE op = "+" -> /\ tape' = Put(ptr, Wrap(Cell(ptr)+1)) /\ pc' = pc+1 /\ UNCHANGED <<ptr, ip, ev>>
            [] op = "-" -> /\ tape' = Put(ptr, Wrap(Cell(ptr)-1)) /\ pc' = pc+1 /\ UNCHANGED <<ptr, ip, ev>>
            [] op = ">" -> /\ ptr' = ptr+1 /\ pc' = pc+1 /\ UNCHANGED <<tape, ip, ev>>
            [] op = "<" -> /\ ptr' = ptr-1 /\ pc' = pc+1 /\ UNCHANGED <<tape, ip, ev>>
            [] op = "." -> /\ ev' = Append(ev, Cell(ptr) % 256) /\ pc' = pc+1 /\ UNCHANGED <<tape, ptr, ip>>
            [] op = "," -> /\ LET inp == Cases[c].input IN
                              LET b == IF ip <= Len(inp) THEN inp[ip] ELSE 0 IN
                              /\ tape' = Put(ptr, b) /\ ev' = Append(ev, -1)
                           /\ ip' = ip+1 /\ pc' = pc+1 /\ UNCHANGED <<ptr>>
            [] op = "[" -> /\ pc' = (IF Cell(ptr) = 0 THEN Jump[c][pc]+1 ELSE pc+1) /\ UNCHANGED <<tape, ptr, ip, ev>>
            [] op = "]" -> /\ pc' = (IF Cell(ptr) # 0 THEN Jump[c][pc]+1 ELSE pc+1) /\ UNCHANGED <<tape, ptr, ip, ev>>
            [] OTHER -> /\ pc' = pc+1 /\ UNCHANGED <<tape, ptr, ip, ev>>

Spec == Init /\ [][Step]_vars

Emit == done => PrintT(<<"TRACE", ToJson([case |-> c, ev |-> ev, steps |-> steps, halted |-> (steps < MaxSteps)])>>)
====
