---- MODULE BFTraceP ----
EXTENDS Integers, Sequences, TLC, Json, IOUtils, FiniteSets
Traces == ndJsonDeserialize(IOEnv.TRACES)
NT == Len(Traces)
MaxSteps == 20000

RECURSIVE MatchFrom(_,_,_,_)
MatchFrom(prog, i, stack, acc) ==
  IF i > Len(prog) THEN acc
  ELSE IF prog[i] = "[" THEN MatchFrom(prog, i+1, <<i>> \o stack, acc)
  ELSE IF prog[i] = "]" THEN MatchFrom(prog, i+1, Tail(stack), (i :> Head(stack)) @@ (Head(stack) :> i) @@ acc)
  ELSE MatchFrom(prog, i+1, stack, acc)
Jump == [t \in 1..NT |-> MatchFrom(Traces[t].prog, 1, <<>>, <<>>)]

VARIABLES t, pc, ptr, tape, ip, l, steps, status, why
vars == <<t, pc, ptr, tape, ip, l, steps, status, why>>
Prog == Traces[t].prog
Log == Traces[t].log
Mod == Traces[t].m
Cell(p) == IF p \in DOMAIN tape THEN tape[p] ELSE 0
Put(p, v) == IF p \in DOMAIN tape THEN [tape EXCEPT ![p] = v] ELSE tape @@ (p :> v)

Init == /\ t \in 1..NT /\ pc = 1 /\ ptr = 0 /\ tape = <<>> /\ ip = 1 /\ l = 1 /\ steps = 0 /\ status = "run" /\ why = <<>>

Finish(s, w) == /\ status' = s /\ why' = w /\ UNCHANGED <<t, pc, ptr, tape, ip, l, steps>>
Silent(pc2, ptr2, tape2) == /\ pc' = pc2 /\ ptr' = ptr2 /\ tape' = tape2 /\ steps' = steps + 1 /\ UNCHANGED <<t, ip, l, status, why>>

Step ==
  /\ status = "run"
  /\ IF pc > Len(Prog) THEN
        IF l = Len(Log) + 1 THEN Finish("accepted", <<"halted">>) ELSE Finish("rejected", <<"extra-event", l, Log[l]>>)
     ELSE IF steps >= MaxSteps THEN Finish("inconclusive", <<"cap">>)
     ELSE LET op == Prog[pc] IN
       CASE op = "+" -> Silent(pc+1, ptr, Put(ptr, (Cell(ptr)+1) % Mod))
         [] op = "-" -> Silent(pc+1, ptr, Put(ptr, (Cell(ptr)-1) % Mod))
         [] op = ">" -> Silent(pc+1, ptr+1, tape)
         [] op = "<" -> Silent(pc+1, ptr-1, tape)
         [] op = "[" -> Silent(IF Cell(ptr) = 0 THEN Jump[t][pc]+1 ELSE pc+1, ptr, tape)
         [] op = "]" -> Silent(IF Cell(ptr) # 0 THEN Jump[t][pc]+1 ELSE pc+1, ptr, tape)
         [] op = "." -> IF l > Len(Log) THEN (IF Traces[t].finished THEN Finish("rejected", <<"missing-out", l, Cell(ptr) % 256>>) ELSE Finish("accepted", <<"prefix">>))
                        ELSE IF Log[l] = <<"out", Cell(ptr) % 256>>
                             THEN /\ l' = l + 1 /\ pc' = pc + 1 /\ steps' = steps + 1 /\ UNCHANGED <<t, ptr, tape, ip, status, why>>
                             ELSE Finish("rejected", <<"out-mismatch", l, Cell(ptr) % 256, Log[l]>>)
         [] op = "," -> LET inp == Traces[t].input  b == IF ip <= Len(inp) THEN inp[ip] ELSE 0
                            e == IF ip <= Len(inp) THEN <<"in", inp[ip]>> ELSE <<"in", -1>> IN
                        IF l > Len(Log) THEN (IF Traces[t].finished THEN Finish("rejected", <<"missing-in", l>>) ELSE Finish("accepted", <<"prefix">>))
                        ELSE IF Log[l] = e
                             THEN /\ l' = l + 1 /\ pc' = pc + 1 /\ steps' = steps + 1 /\ ip' = ip + 1 /\ tape' = Put(ptr, b) /\ UNCHANGED <<t, ptr, status, why>>
                             ELSE Finish("rejected", <<"in-mismatch", l, e, Log[l]>>)
         [] OTHER -> Silent(pc+1, ptr, tape)
Spec == Init /\ [][Step]_vars
Report == status # "run" => PrintT(<<"VERDICT", Traces[t].id, status, why>>)
====
