use hpbf::{ir::Expr, CellType};
struct Rng(u64);
impl Rng { fn next(&mut self) -> u64 { self.0 ^= self.0 << 13; self.0 ^= self.0 >> 7; self.0 ^= self.0 << 17; self.0 } fn below(&mut self, n: u64) -> u64 { self.next() % n } }

fn coef<C: CellType>(r: &mut Rng) -> C {
    let half = 1u64 << (C::BITS - 1);
    let c = [0u64, 1, 2, 3, 5, half, half.wrapping_add(1), half.wrapping_sub(1), u64::MAX, u64::MAX - 1, r.next()];
    C::from_u64(c[r.below(c.len() as u64) as usize])
}
fn test_expr<C: CellType>(seed: u64, iters: usize) -> usize {
    let mut r = Rng(seed | 1); let mut bad = 0;
    for it in 0..iters {
        let mut pool: Vec<Expr<C>> = vec![Expr::val(coef::<C>(&mut r)), Expr::var(0), Expr::var(1), Expr::var(2), Expr::var(-1)];
        let envs: Vec<Vec<C>> = (0..6).map(|_| (0..4).map(|_| coef::<C>(&mut r)).collect()).collect();
        let ev = |e: &Expr<C>, env: &Vec<C>| e.evaluate(|v| env[(v + 1) as usize]);
        for _step in 0..12 {
            let a = pool[r.below(pool.len() as u64) as usize].clone(); let b = pool[r.below(pool.len() as u64) as usize].clone();
            let op = r.below(12);
            let (res, chk): (Option<Expr<C>>, Box<dyn Fn(&Vec<C>, C) -> bool>) = match op {
                0 | 1 => { let (a2, b2) = (a.clone(), b.clone()); (Some(a.add(&b)), Box::new(move |env, v| v == a2.evaluate(|x| env[(x+1) as usize]).wrapping_add(b2.evaluate(|x| env[(x+1) as usize])))) }
                2 | 3 | 4 => { let (a2, b2) = (a.clone(), b.clone()); (Some(a.mul(&b)), Box::new(move |env, v| v == a2.evaluate(|x| env[(x+1) as usize]).wrapping_mul(b2.evaluate(|x| env[(x+1) as usize])))) }
                5 => { let a2 = a.clone(); (Some(a.neg()), Box::new(move |env, v| v == a2.evaluate(|x| env[(x+1) as usize]).wrapping_neg())) }
                6 => { let a2 = a.clone(); (Some(a.clone().normalize()), Box::new(move |env, v| v == a2.evaluate(|x| env[(x+1) as usize]))) }
                7 => { let a2 = a.clone(); (a.half(), Box::new(move |env, v| v.wrapping_add(v) == a2.evaluate(|x| env[(x+1) as usize]))) }
                8 => { let a2 = a.clone(); let b2 = b.clone(); let var = r.below(4) as isize - 1;
                       (a.symb_evaluate(|x| if x == var { Some(b2.clone()) } else { Some(Expr::var(x)) }), { let b3 = b.clone(); Box::new(move |env, v| { let bv = b3.evaluate(|x| env[(x+1) as usize]); v == a2.evaluate(|x| if x == var { bv } else { env[(x+1) as usize] }) }) }) }
                9 => { let var = r.below(4) as isize - 1; let a2 = a.clone(); (a.inc_of(var), Box::new(move |env, v| v.wrapping_add(env[(var+1) as usize]) == a2.evaluate(|x| env[(x+1) as usize]))) }
                10 => { let var = r.below(4) as isize - 1; let a2 = a.clone(); (a.prod_of(var), Box::new(move |env, v| v.wrapping_mul(env[(var+1) as usize]) == a2.evaluate(|x| env[(x+1) as usize]))) }
                _ => { let var = r.below(4) as isize - 1; let a2 = a.clone(); match a.prod_inc_of(var) { Some((e, m)) => (Some(e), Box::new(move |env, v| v.wrapping_add(m.wrapping_mul(env[(var+1) as usize])) == a2.evaluate(|x| env[(x+1) as usize]))), None => (None, Box::new(|_, _| true)) } }
            };
            if let Some(res) = res {
                for env in &envs { let v = ev(&res, env); if !chk(env, v) { bad += 1; if bad <= 5 { println!("BAD w{} it{} op{} a={:?} b={:?} res={:?} env={:?}", C::BITS, it, op, a, b, res, env); } break; } }
                // equality implies same value
                for p in &pool { if *p == res { for env in &envs { if ev(p, env) != ev(&res, env) { bad += 1; println!("EQBAD {:?} {:?}", p, res); break; } } } }
                if res.op_count() < 40 { pool.push(res); }
            }
        }
    }
    bad
}
fn test_div<C: CellType>(seed: u64, iters: usize) -> usize {
    let mut r = Rng(seed | 1); let mut bad = 0;
    for _ in 0..iters {
        let n: C = coef(&mut r); let mut d: C = coef(&mut r); if r.below(2) == 0 { d = d.wrapping_shl(r.below(C::BITS as u64) as u32); }
        let n = if r.below(2) == 0 { n.wrapping_mul(d) } else { n };
        match n.wrapping_div(d) {
            Some(x) => { let tz = d.trailing_zeros().min(C::BITS); let small = if tz == 0 { true } else { x.wrapping_shr(C::BITS - tz) == C::ZERO };
                if x.wrapping_mul(d) != n || !(small || n == C::ZERO) { bad += 1; if bad < 5 { println!("DIVBAD w{} n={:?} d={:?} x={:?}", C::BITS, n, d, x); } } }
            None => { if n == C::ZERO || d.trailing_zeros() <= n.trailing_zeros() { bad += 1; if bad < 5 { println!("DIVNONE w{} n={:?} d={:?}", C::BITS, n, d); } } }
        }
        if let Some(i) = d.wrapping_inv() { if i.wrapping_mul(d) != C::ONE || !d.is_odd() { bad += 1; println!("INVBAD {:?}", d); } } else if d.is_odd() { bad += 1; println!("INVNONE {:?}", d); }
        let e = C::from_u64(r.below(40)); let mut acc = C::ONE; let mut k = C::ZERO; while k != e { acc = acc.wrapping_mul(n); k = k.wrapping_add(C::ONE); }
        if n.wrapping_pow(e) != acc { bad += 1; println!("POWBAD {:?}^{:?}", n, e); }
    }
    bad
}
fn main() {
    println!("expr u8 {}", test_expr::<u8>(1, 20000)); println!("expr u16 {}", test_expr::<u16>(2, 20000)); println!("expr u32 {}", test_expr::<u32>(3, 20000)); println!("expr u64 {}", test_expr::<u64>(4, 20000));
    println!("div u8 {}", test_div::<u8>(1, 200000)); println!("div u16 {}", test_div::<u16>(2, 200000)); println!("div u32 {}", test_div::<u32>(3, 200000)); println!("div u64 {}", test_div::<u64>(4, 200000));
}
