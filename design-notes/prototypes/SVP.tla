---- MODULE SVP ----
EXTENDS Integers, Sequences, TLC, FiniteSets
CONSTANTS N, MaxOps, MaxId
VARIABLES size, slots, heap, dropped, nextId, ops, alive
vars == <<size, slots, heap, dropped, nextId, ops, alive>>
Ids == 1..MaxId
Val(id) == id % 2            \* element value (for dedup / predicates)
Init == size = 0 /\ slots = [i \in 1..N |-> 0] /\ heap = <<>> /\ dropped = [i \in Ids |-> 0] /\ nextId = 1 /\ ops = 0 /\ alive = TRUE
Contents == IF size <= N THEN [i \in 1..size |-> slots[i]] ELSE heap
DropAll(s, d) == [i \in Ids |-> d[i] + Cardinality({k \in DOMAIN s : s[k] = i})]

Push == /\ nextId <= MaxId /\ nextId' = nextId + 1
        /\ IF size < N THEN slots' = [slots EXCEPT ![size+1] = nextId] /\ size' = size + 1 /\ heap' = heap
           ELSE IF size = N THEN heap' = [i \in 1..N |-> slots[i]] \o <<nextId>> /\ size' = N + 1 /\ slots' = [i \in 1..N |-> 0]
           ELSE heap' = Append(heap, nextId) /\ UNCHANGED <<size, slots>>
        /\ UNCHANGED dropped
\* retain as coded (inline): removed elements are NOT dropped; heap: Vec::retain drops them
RECURSIVE Compact(_,_,_,_,_)
Compact(sl, i, j, old, keep) == IF i > old THEN <<sl, j>> ELSE
     IF sl[i] \in keep THEN Compact(IF i # j + 1 THEN [sl EXCEPT ![j+1] = sl[i]] ELSE sl, i+1, j+1, old, keep)
     ELSE Compact(sl, i+1, j, old, keep)
Retain(keep) == IF size <= N
   THEN LET r == Compact(slots, 1, 0, size, keep) IN slots' = r[1] /\ size' = r[2] /\ UNCHANGED <<heap, dropped, nextId>>
   ELSE /\ heap' = SelectSeq(heap, LAMBDA x : x \in keep)
        /\ dropped' = [i \in Ids |-> dropped[i] + (IF i \notin keep /\ \E k \in DOMAIN heap : heap[k] = i THEN 1 ELSE 0)]
        /\ UNCHANGED <<size, slots, nextId>>
Clear == /\ dropped' = DropAll(Contents, dropped)
         /\ IF size <= N THEN size' = 0 /\ UNCHANGED <<slots, heap>> ELSE heap' = <<>> /\ UNCHANGED <<size, slots>>
         /\ UNCHANGED nextId
DropVec == /\ alive' = FALSE /\ dropped' = DropAll(Contents, dropped) /\ UNCHANGED <<size, slots, heap, nextId, ops>>
Next == /\ alive
        /\ \/ /\ ops < MaxOps /\ ops' = ops + 1 /\ alive' = alive
              /\ (Push \/ Clear \/ \E keep \in SUBSET {0, 1} : Retain({i \in Ids : Val(i) \in keep}))
           \/ DropVec
Spec == Init /\ [][Next]_vars
AtMostOnce == \A i \in Ids : dropped[i] <= 1
ExactlyOnceAtEnd == ~alive => \A i \in 1..(nextId-1) : dropped[i] = 1
====
