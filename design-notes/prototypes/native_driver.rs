use std::{cell::RefCell, io::{Read, Write}, rc::Rc, collections::HashMap};
use hpbf::{exec::*, runtime::Context, CellType};

#[derive(Clone, Copy, PartialEq, Debug)]
enum Ev { In(i32), Out(u8) }
struct R { data: Vec<u8>, pos: usize, log: Rc<RefCell<Vec<Ev>>> }
impl Read for R { fn read(&mut self, b: &mut [u8]) -> std::io::Result<usize> {
    if self.pos < self.data.len() { b[0] = self.data[self.pos]; self.pos += 1; self.log.borrow_mut().push(Ev::In(b[0] as i32)); Ok(1) } else { self.log.borrow_mut().push(Ev::In(-1)); Ok(0) } } }
struct W { log: Rc<RefCell<Vec<Ev>>>, cap: usize }
impl Write for W { fn write(&mut self, b: &[u8]) -> std::io::Result<usize> {
    if self.log.borrow().len() >= self.cap { return Ok(0); }
    self.log.borrow_mut().push(Ev::Out(b[0])); Ok(1) } fn flush(&mut self) -> std::io::Result<()> { Ok(()) } }

struct Rng(u64);
impl Rng { fn next(&mut self) -> u64 { self.0 ^= self.0 << 13; self.0 ^= self.0 >> 7; self.0 ^= self.0 << 17; self.0 }
  fn below(&mut self, n: u64) -> u64 { self.next() % n } }

// reference: returns (halted, events)
fn reference(code: &[u8], input: &[u8], bits: u32, max_steps: usize, cap: usize) -> (bool, Vec<Ev>) {
    let mut jump = vec![0usize; code.len()]; let mut st = vec![];
    for (i, &c) in code.iter().enumerate() { if c == b'[' { st.push(i) } else if c == b']' { let j = st.pop().unwrap(); jump[i] = j; jump[j] = i; } }
    let mask: u64 = if bits == 64 { u64::MAX } else { (1u64 << bits) - 1 };
    let mut tape: HashMap<i64, u64> = HashMap::new(); let mut p = 0i64; let mut pc = 0; let mut ip = 0; let mut ev = vec![]; let mut steps = 0;
    while pc < code.len() { steps += 1; if steps > max_steps { return (false, ev); }
        let v = *tape.get(&p).unwrap_or(&0);
        match code[pc] { b'+' => { tape.insert(p, v.wrapping_add(1) & mask); } b'-' => { tape.insert(p, v.wrapping_sub(1) & mask); }
            b'>' => p += 1, b'<' => p -= 1,
            b'.' => { if ev.len() >= cap { return (false, ev); } ev.push(Ev::Out(v as u8)); }
            b',' => { if ip < input.len() { tape.insert(p, input[ip] as u64); ev.push(Ev::In(input[ip] as i32)); ip += 1; } else { tape.insert(p, 0); ev.push(Ev::In(-1)); } }
            b'[' => if v == 0 { pc = jump[pc]; }, b']' => if v != 0 { pc = jump[pc]; }, _ => {} }
        pc += 1; }
    (true, ev)
}

fn run<'c, C: CellType, E: Executor<'c, C>>(code: &'c str, opt: u32, input: &[u8], cap: usize) -> Result<Vec<Ev>, String> {
    let log = Rc::new(RefCell::new(vec![]));
    let r = std::panic::catch_unwind(std::panic::AssertUnwindSafe(|| {
        let mut cx = Context::<C>::new(Some(Box::new(R { data: input.to_vec(), pos: 0, log: log.clone() })), Some(Box::new(W { log: log.clone(), cap })));
        let e = E::create(code, opt).map_err(|e| format!("{e:?}"))?; cx.budget = 2_000_000; let f = e.execute_limited(&mut cx).map_err(|e| format!("{e:?}"))?; if !f { return Err("not-finished".into()); } Ok::<(), String>(()) }));
    match r { Ok(Ok(())) => { let v = log.borrow().clone(); Ok(v) }, Ok(Err(e)) => Err(e), Err(_) => Err("panic".into()) }
}

fn gen_body(r: &mut Rng, depth: u32, out: &mut String, budget: &mut i32) {
    let n = 1 + r.below(5);
    for _ in 0..n { if *budget <= 0 { return; } *budget -= 1;
        match r.below(14) {
            0 | 1 => { let k = 1 + r.below(4); for _ in 0..k { out.push('+'); } }
            2 => { let k = 1 + r.below(4); for _ in 0..k { out.push('-'); } }
            3 => out.push('.'), 4 => out.push(','),
            5 | 6 => { // balanced excursion with adds
                let d = 1 + r.below(3) as usize; let right = r.below(2) == 0; let (a, b) = if right { ('>', '<') } else { ('<', '>') };
                for _ in 0..d { out.push(a); } let k = 1 + r.below(3); let c = if r.below(3) == 0 { '-' } else { '+' }; for _ in 0..k { out.push(c); } if r.below(5)==0 { out.push('.'); } for _ in 0..d { out.push(b); } }
            7 | 8 | 9 if depth < 3 => { // counted loop
                out.push('['); let dec = if r.below(6) == 0 { 1 + r.below(3) } else { 1 }; let c = if r.below(8) == 0 { '+' } else { '-' };
                if r.below(2) == 0 { for _ in 0..dec { out.push(c); } gen_body(r, depth + 1, out, budget); } else { gen_body(r, depth + 1, out, budget); for _ in 0..dec { out.push(c); } }
                out.push(']'); }
            10 if depth < 3 => { out.push('['); gen_body(r, depth + 1, out, budget); out.push_str("[-]]"); }
            11 => { out.push_str(if r.below(2) == 0 { "[-]" } else { "[+]" }); }
            12 => { if r.below(3) == 0 { out.push_str(if r.below(2)==0 {"[>]"} else {"[<]"}); } else { out.push(if r.below(2)==0 {'>'} else {'<'}); } }
            _ => { out.push(if r.below(2)==0 {'>'} else {'<'}); }
        } }
}


fn go(out: &mut String, cur: &mut i32, to: i32) { while *cur < to { out.push('>'); *cur += 1; } while *cur > to { out.push('<'); *cur -= 1; } }
// cells 0..NV are variables, NV..NV+2 temps
const NV: i32 = 5;
fn gen_struct(r: &mut Rng, depth: u32, out: &mut String, cur: &mut i32, budget: &mut i32) {
    let n = 1 + r.below(4);
    for _ in 0..n { if *budget <= 0 { return; } *budget -= 1;
        let a = r.below(NV as u64) as i32; let mut b = r.below(NV as u64) as i32; if b == a { b = (a + 1) % NV; }
        let t = NV + r.below(2) as i32;
        match r.below(12) {
            0 => { go(out, cur, a); let k = 1 + r.below(3); let c = if r.below(3)==0 {'-'} else {'+'}; for _ in 0..k { out.push(c); } }
            1 => { go(out, cur, a); out.push('.'); }
            2 => { go(out, cur, a); out.push(','); }
            3 => { go(out, cur, a); out.push_str("[-]"); }
            4 => { // move: a += b; b = 0   (maybe scaled)
                go(out, cur, b); out.push_str("[-"); go(out, cur, a); let k = 1 + r.below(2); for _ in 0..k { out.push(if r.below(4)==0 {'-'} else {'+'}); } go(out, cur, b); out.push(']'); }
            5 => { // add preserving: a += b via temp t
                go(out, cur, b); out.push_str("[-"); go(out, cur, a); out.push('+'); go(out, cur, t); out.push('+'); go(out, cur, b); out.push(']');
                go(out, cur, t); out.push_str("[-"); go(out, cur, b); out.push('+'); go(out, cur, t); out.push(']'); }
            6 => { // set a = b
                go(out, cur, a); out.push_str("[-]");
                go(out, cur, b); out.push_str("[-"); go(out, cur, a); out.push('+'); go(out, cur, t); out.push('+'); go(out, cur, b); out.push(']');
                go(out, cur, t); out.push_str("[-"); go(out, cur, b); out.push('+'); go(out, cur, t); out.push(']'); }
            7 | 8 if depth < 2 => { // counted loop on a
                go(out, cur, a); out.push('['); let first = r.below(2)==0; let step = if r.below(5)==0 { 1 + r.below(3) } else { 1 };
                if first { for _ in 0..step { out.push('-'); } }
                gen_struct(r, depth + 1, out, cur, budget); go(out, cur, a); if !first { for _ in 0..step { out.push('-'); } } out.push(']'); }
            9 if depth < 2 => { // if a { ... } (destroys a)
                go(out, cur, a); out.push('['); gen_struct(r, depth + 1, out, cur, budget); go(out, cur, a); out.push_str("[-]]"); }
            10 if depth < 2 => { // while a (body may change a arbitrarily)
                go(out, cur, a); out.push('['); gen_struct(r, depth + 1, out, cur, budget); go(out, cur, a); out.push(']'); }
            _ => { go(out, cur, a); out.push(if r.below(2)==0 {'+'} else {'-'}); }
        } }
}


fn fails(code: &str, input: &[u8]) -> Option<u32> {
    let mut d = 0i32; for c in code.bytes() { if c == b'[' { d += 1 } else if c == b']' { d -= 1; if d < 0 { return None; } } } if d != 0 { return None; }
    let (h, exp) = reference(code.as_bytes(), input, 8, 20000, 64); if !h { return None; }
    for o in 1..4 { let got = run::<u8, IrInterpreter<u8>>(code, o, input, 64); if got.as_ref().ok() != Some(&exp) { return Some(o); } }
    None
}
fn minimize(mut code: String, mut input: Vec<u8>) {
    loop { let mut changed = false;
        let mut i = 0; while i < code.len() { 
            let b = code.as_bytes()[i];
            let cand = if b == b'[' { // remove matching pair
                let mut d = 0; let mut j = i; loop { let c = code.as_bytes()[j]; if c == b'[' { d += 1 } else if c == b']' { d -= 1; if d == 0 { break; } } j += 1; }
                let mut t = code.clone(); t.remove(j); t.remove(i); t } else if b == b']' { i += 1; continue } else { let mut t = code.clone(); t.remove(i); t };
            if fails(&cand, &input).is_some() { code = cand; changed = true; } else { i += 1; } }
        // remove whole loops
        let mut i = 0; while i < code.len() { if code.as_bytes()[i] == b'[' { let mut d = 0; let mut j = i; loop { let c = code.as_bytes()[j]; if c == b'[' { d += 1 } else if c == b']' { d -= 1; if d == 0 { break; } } j += 1; }
                let cand = format!("{}{}", &code[..i], &code[j+1..]); if fails(&cand, &input).is_some() { code = cand; changed = true; continue; } } i += 1; }
        for k in 0..input.len() { for v in [0u8, 1, 2, 3] { if input[k] > v { let mut t = input.clone(); t[k] = v; if fails(&code, &t).is_some() { input = t; changed = true; break; } } } }
        if !changed { break; } }
    println!("MIN O{:?}: {} input={:?}", fails(&code, &input), code, input);
}

fn gen_net(r: &mut Rng, out: &mut String) {
    let n = 6 + r.below(12) as i32; let t = n; let mut cur = 0;
    for i in 0..n { go(out, &mut cur, i); if r.below(4) != 0 { out.push(','); } else { for _ in 0..1 + r.below(3) { out.push('+'); } } }
    let looped = r.below(2) == 0; let cnt = n + 1;
    if looped { go(out, &mut cur, cnt); for _ in 0..1 + r.below(2) { out.push('+'); } out.push_str("[-"); }
    let rounds = 1 + r.below(2);
    for _ in 0..rounds { for i in 0..n { let j = ((i + 1 + r.below(2) as i32) % n) as i32; if j == i { continue; }
        match r.below(5) {
          0 | 1 | 2 => { go(out, &mut cur, j); out.push_str("[-"); go(out, &mut cur, i); out.push(if r.below(4)==0 {'-'} else {'+'}); go(out, &mut cur, t); out.push('+'); go(out, &mut cur, j); out.push(']');
                 go(out, &mut cur, t); out.push_str("[-"); go(out, &mut cur, j); out.push('+'); go(out, &mut cur, t); out.push(']'); }
          3 => { // i += j * k (k = cell (j+1)%n) : nested loop multiply preserving both
                 let k = (j + 1) % n; if k == i { continue; }
                 go(out, &mut cur, j); out.push_str("[-"); go(out, &mut cur, t); out.push('+');
                 go(out, &mut cur, k); out.push_str("[-"); go(out, &mut cur, i); out.push('+'); go(out, &mut cur, t + 2); out.push('+'); go(out, &mut cur, k); out.push(']');
                 go(out, &mut cur, t + 2); out.push_str("[-"); go(out, &mut cur, k); out.push('+'); go(out, &mut cur, t + 2); out.push(']');
                 go(out, &mut cur, j); out.push(']');
                 go(out, &mut cur, t); out.push_str("[-"); go(out, &mut cur, j); out.push('+'); go(out, &mut cur, t); out.push(']'); }
          _ => { if r.below(3)==0 { go(out, &mut cur, i); out.push('.'); } }
        } } }
    if looped { go(out, &mut cur, cnt); out.push(']'); }
    for i in 0..n { go(out, &mut cur, i); out.push('.'); }
}
fn gen_roam(r: &mut Rng, out: &mut String) {
    let k = 1 + r.below(3);
    for _ in 0..k { let d = if r.below(2)==0 {'>'} else {'<'}; let n = [1u64, 2, 3, 7, 30, 200, 1500][r.below(7) as usize];
        match r.below(4) { 0 => { for _ in 0..n { out.push(d); } out.push_str("+."); }
            1 => { let m = 2 + r.below(20); for _ in 0..m { out.push('+'); } out.push_str("[["); out.push('-'); out.push(d); out.push('+'); out.push(if d=='>' {'<'} else {'>'}); out.push(']'); out.push(d); out.push_str("-]"); out.push('.'); }
            2 => { let m = 1 + r.below(12); for _ in 0..m { out.push(d); out.push('+'); } let b = if d=='>' {'<'} else {'>'}; out.push('['); out.push(b); out.push(']'); out.push(d); out.push('.'); }
            _ => { for _ in 0..n.min(40) { out.push(d); out.push('+'); out.push('.'); } } } }
    out.push_str(".");
}

fn main() {
    if std::env::var("MIN").is_ok() { std::panic::set_hook(Box::new(|_| {})); let a: Vec<String> = std::env::args().collect(); let inp: Vec<u8> = a[2].split(',').map(|x| x.trim().parse().unwrap()).collect(); minimize(a[1].clone(), inp); return; }
    let args: Vec<String> = std::env::args().collect(); let seed: u64 = args.get(1).map(|s| s.parse().unwrap()).unwrap_or(1); let n: usize = args.get(2).map(|s| s.parse().unwrap()).unwrap_or(10000);
    std::panic::set_hook(Box::new(|_| {}));
    let mut r = Rng(seed.wrapping_mul(0x9E3779B97F4A7C15) | 1); let mut fails: HashMap<String, usize> = HashMap::new(); let mut halted = 0; let mut shown = 0;
    for _ in 0..n {
        let mut code = String::new(); let mut budget = 4 + r.below(20) as i32; 
        let mode = std::env::var("MODE").unwrap_or_default();
        if mode == "s" { let mut cur = 0; for i in 0..NV { go(&mut code, &mut cur, i); if r.below(3) != 0 { code.push(','); } else { for _ in 0..r.below(4) { code.push('+'); } } }
            gen_struct(&mut r, 0, &mut code, &mut cur, &mut budget); for i in 0..NV+2 { go(&mut code, &mut cur, i); code.push('.'); } }
        else if mode == "n" { gen_net(&mut r, &mut code); }
        else if mode == "t" { gen_roam(&mut r, &mut code); }
        else { if r.below(2)==0 { code.push_str(",>,>,<<"); }
        gen_body(&mut r, 0, &mut code, &mut budget); code.push_str(".>.>.<<<."); }
        let input: Vec<u8> = (0..6).map(|_| [0u8,1,2,3,5,255,128,7][r.below(8) as usize]).collect();
        let bits = [8u32, 8, 16, 32, 64][r.below(5) as usize];
        let (h, exp) = reference(code.as_bytes(), &input, bits, 40000, 64); if !h { continue; } halted += 1;
        macro_rules! chk { ($name:expr, $t:ident, $o:expr) => { let got = match bits { 8 => run::<u8, $t<u8>>(&code, $o, &input, 64), 16 => run::<u16, $t<u16>>(&code, $o, &input, 64), 32 => run::<u32, $t<u32>>(&code, $o, &input, 64), _ => run::<u64, $t<u64>>(&code, $o, &input, 64) };
            if got.as_ref().ok() != Some(&exp) { let k = format!("{} O{} w{}", $name, $o, bits); *fails.entry(k.clone()).or_default() += 1; if shown < 400 { shown += 1; println!("FAIL {k}: {code} input={input:?}\n  exp={exp:?}\n  got={got:?}"); } } } }
        chk!("inplace", InplaceInterpreter, 0);
        for o in 0..4 { chk!("irint", IrInterpreter, o); chk!("bcint", BcInterpreter, o); chk!("jit", BaseJitCompiler, o); }
    }
    println!("halted {halted}/{n}; fails: {fails:?}");
}
