#!/bin/sh
# Builds the harness (and hpbf with hooks on) from files on disk only.
set -e
cd "$(dirname "$0")/harness"
export CARGO_NET_OFFLINE=true
cargo build --offline --release
cargo build --offline
