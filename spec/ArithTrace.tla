----------------------------- MODULE ArithTrace -----------------------------
(***************************************************************************)
(* C14, binding: results recorded from the real CellType implementations   *)
(* (u8, u16, u32, u64) are validated against the *contracts* of Cell.tla,  *)
(* with limb arithmetic (values are little-endian sequences of 8-bit       *)
(* limbs, so 64-bit operands are exact).                                   *)
(*                                                                         *)
(* A trace is a sequence of events  [op, w, a, b, k, r, none]:             *)
(*   div    r = a.wrapping_div(b)    (none = 1: returned None)             *)
(*   inv    r = a.wrapping_inv()                                           *)
(*   pow2   a = base, b = exponent e, k = bit index, r = pow(a, e >> k),   *)
(*          x = pow(a, e >> (k+1)): one link of the square-and-multiply    *)
(*          chain; together with pow(a, 0) = 1 the links pin down pow      *)
(*   shr / shl / tz / and / add / mul / neg   the primitive operations     *)
(*   zext / sext   into_u64 / into_i64 as 8 limbs                          *)
(*   trunc  from_u64 (a = 8 limbs)                                         *)
(*   fromi16 / tryi16   the 16-bit signed conversions (2 limbs)            *)
(*   fromu8 / intou8                                                       *)
(***************************************************************************)
EXTENDS Cell, TLC, Json, IOUtils

Cases == ndJsonDeserialize(IOEnv.CASES)
VARIABLES t, l, verdict, why
vars == <<t, l, verdict, why>>
Ev == Cases[t].events
Init == t \in 1..Len(Cases) /\ l = 1 /\ verdict = "run" /\ why = <<>>

Sign8(v) == IF v[Len(v)] >= 128 THEN 255 ELSE 0
ZExt(v) == [i \in 1..8 |-> IF i <= Len(v) THEN v[i] ELSE 0]
SExt(v) == [i \in 1..8 |-> IF i <= Len(v) THEN v[i] ELSE Sign8(v)]
Trunc(v, W) == [i \in 1..NL(W) |-> v[i]]
\* does the sign-extended value fit 16 bits?
FitsI16(v) == LET s == SExt(v) IN \A i \in 3..8 : s[i] = (IF s[2] >= 128 THEN 255 ELSE 0)

Holds(e) ==
  LET W == e.w  a == e.a  b == e.b  r == e.r  isNone == e.none = 1 IN
  CASE e.op = "div" -> IF isNone THEN DivContractNone(a, b, W)
                       ELSE DivSolvable(a, b, W) /\ DivContractSome(r, a, b, W)
    [] e.op = "inv" -> IF isNone THEN ~CIsOdd(a) ELSE CIsOdd(a) /\ CMul(a, r, W) = COne(W)
    [] e.op = "pow2" -> \* r = pow(a, e>>k), e.x = pow(a, e>>(k+1))
         IF e.k >= W THEN r = COne(W)
         ELSE r = CMul(CMul(e.x, e.x, W), IF CBit(b, e.k, W) = 1 THEN a ELSE COne(W), W)
    [] e.op = "shr" -> r = CShr(a, e.k, W)
    [] e.op = "shl" -> r = CShl(a, e.k, W)
    [] e.op = "tz"  -> e.k = CTz(a, W)
    [] e.op = "and" -> r = CAnd(a, b, W)
    [] e.op = "add" -> r = CAdd(a, b, W)
    [] e.op = "mul" -> r = CMul(a, b, W)
    [] e.op = "neg" -> r = CNeg(a, W) /\ CIsZero(CAdd(a, r, W))
    [] e.op = "zext" -> r = ZExt(a)
    [] e.op = "sext" -> r = SExt(a)
    [] e.op = "trunc" -> r = Trunc(a, W)
    [] e.op = "fromu8" -> r = CFromByte(e.k, W)
    [] e.op = "intou8" -> e.k = CByte(a)
    [] e.op = "fromi16" -> r = Trunc(SExt(a), W)            \* a = the i16 as 2 limbs
    [] e.op = "tryi16" -> IF isNone THEN ~FitsI16(a) ELSE FitsI16(a) /\ r = <<SExt(a)[1], SExt(a)[2]>>
    [] OTHER -> FALSE

Step ==
  /\ verdict = "run" /\ UNCHANGED t
  /\ IF l > Len(Ev) THEN verdict' = "accepted" /\ why' = <<"all-contracts-hold", l - 1>> /\ l' = l
     ELSE IF Holds(Ev[l]) THEN l' = l + 1 /\ UNCHANGED <<verdict, why>>
     ELSE verdict' = "rejected" /\ l' = l
          /\ why' = <<"contract-violated", l, Ev[l].op, Ev[l].w, Ev[l].a, Ev[l].b, Ev[l].k, Ev[l].r, Ev[l].none>>
Spec == Init /\ [][Step]_vars
Report == verdict # "run" =>
  PrintT(ToJson([id |-> Cases[t].id, verdict |-> verdict, why |-> ToString(why), pos |-> l]))
=============================================================================
