-------------------------------- MODULE Expr --------------------------------
(***************************************************************************)
(* C15: the symbolic expression algebra of src/ir.rs agrees with concrete  *)
(* arithmetic in Z/2^W.                                                    *)
(*                                                                         *)
(* The specification is a history machine (an "expression store").  Every  *)
(* expression that the public API returns gets an identifier; the store    *)
(* keeps                                                                   *)
(*   den[id]   its denotation: the values it takes at a fixed list Sigma   *)
(*             of variable assignments (as observed through                *)
(*             Expr::evaluate), and                                        *)
(*   def[id]   how it was built, for the expressions built only from       *)
(*             val / var / add / mul / neg (so that the store can evaluate *)
(*             them at *any* assignment, needed for substitution).         *)
(* One action per API call checks the clause of C15 that belongs to it:    *)
(* constructors pointwise, halving and normalisation by their defining     *)
(* equation, substitution against evaluation under the substituted         *)
(* assignment, and each decomposition by its recomposition identity.       *)
(* Values are limb sequences (Cell.tla), so all four widths are exact.     *)
(***************************************************************************)
EXTENDS Cell, TLC, Json, IOUtils

Cases == ndJsonDeserialize(IOEnv.CASES)
VARIABLES t, l, den, def, verdict, why
vars == <<t, l, den, def, verdict, why>>
Ev    == Cases[t].events
W     == Cases[t].w
Sigma == Cases[t].sigma          \* sequence of assignments; an assignment is a sequence of <<var, value>>
NS    == Len(Sigma)

Init == t \in 1..Len(Cases) /\ l = 1 /\ den = <<>> /\ def = <<>> /\ verdict = "run" /\ why = <<>>

Lookup(asg, v) == LET k == CHOOSE k \in DOMAIN asg : asg[k][1] = v IN asg[k][2]
HasVar(asg, v) == \E k \in DOMAIN asg : asg[k][1] = v

\* value of a transparent expression at an arbitrary assignment
RECURSIVE Value(_, _)
Value(id, asg) ==
  LET d == def[id] IN
  CASE d.op = "val" -> d.c
    [] d.op = "var" -> Lookup(asg, d.a)
    [] d.op = "add" -> CAdd(Value(d.a, asg), Value(d.b, asg), W)
    [] d.op = "mul" -> CMul(Value(d.a, asg), Value(d.b, asg), W)
    [] d.op = "neg" -> CNeg(Value(d.a, asg), W)

Pointwise(f(_)) == \A i \in 1..NS : f(i)

\* the clause each call must satisfy; e.vals is the observed denotation of the result
Holds(e) ==
  CASE e.op = "val" -> Pointwise(LAMBDA i : e.vals[i] = e.c)
    [] e.op = "var" -> Pointwise(LAMBDA i : e.vals[i] = Lookup(Sigma[i], e.a))
    [] e.op = "add" -> Pointwise(LAMBDA i : e.vals[i] = CAdd(den[e.a][i], den[e.b][i], W))
    [] e.op = "mul" -> Pointwise(LAMBDA i : e.vals[i] = CMul(den[e.a][i], den[e.b][i], W))
    [] e.op = "neg" -> Pointwise(LAMBDA i : e.vals[i] = CNeg(den[e.a][i], W))
    [] e.op = "half" -> e.none = 1 \/ Pointwise(LAMBDA i : CAdd(e.vals[i], e.vals[i], W) = den[e.a][i])
    [] e.op = "normalize" -> Pointwise(LAMBDA i : e.vals[i] = den[e.a][i])
    [] e.op = "clone" -> Pointwise(LAMBDA i : e.vals[i] = den[e.a][i])
    [] e.op = "subst" ->      \* symb_evaluate(a, v |-> expression e.subst[v])
         e.none = 1 \/ Pointwise(LAMBDA i :
           e.vals[i] = Value(e.a, [k \in DOMAIN Sigma[i] |->
                                     LET v == Sigma[i][k][1] IN
                                     IF \E j \in DOMAIN e.subst : e.subst[j][1] = v
                                     THEN <<v, den[(LET j == CHOOSE j \in DOMAIN e.subst : e.subst[j][1] = v
                                                    IN e.subst[j][2])][i]>>
                                     ELSE Sigma[i][k]]))
    \* decompositions: the result recomposes to the original value
    [] e.op = "inc_of" -> e.none = 1 \/ Pointwise(LAMBDA i :
                            den[e.a][i] = CAdd(Lookup(Sigma[i], e.b), e.vals[i], W))
    [] e.op = "prod_inc_of" -> e.none = 1 \/ Pointwise(LAMBDA i :
                            den[e.a][i] = CAdd(CMul(e.c, Lookup(Sigma[i], e.b), W), e.vals[i], W))
    [] e.op = "const_inc_of" -> e.none = 1 \/ Pointwise(LAMBDA i :
                            den[e.a][i] = CAdd(Lookup(Sigma[i], e.b), e.c, W))
    [] e.op = "prod_of" -> e.none = 1 \/ Pointwise(LAMBDA i :
                            den[e.a][i] = CMul(Lookup(Sigma[i], e.b), e.vals[i], W))
    [] e.op = "constant" -> e.none = 1 \/ Pointwise(LAMBDA i : den[e.a][i] = e.c)
    [] e.op = "constant_part" -> den[e.a][1] = e.c            \* Sigma[1] is the all-zero assignment
    [] e.op = "identity" -> e.none = 1 \/ Pointwise(LAMBDA i : den[e.a][i] = Lookup(Sigma[i], e.b))
    [] e.op = "is_zero" -> e.none = 1 \/ Pointwise(LAMBDA i : CIsZero(den[e.a][i]))
    [] e.op = "eq" -> e.none = 1 \/ Pointwise(LAMBDA i : den[e.a][i] = den[e.b][i])   \* == implies same value
    [] OTHER -> FALSE

Transparent(e) ==
  \/ e.op \in {"val", "var"}
  \/ e.op = "neg" /\ e.a \in DOMAIN def
  \/ e.op \in {"add", "mul"} /\ e.a \in DOMAIN def /\ e.b \in DOMAIN def
Defines(e) == e.op \in {"val", "var", "add", "mul", "neg", "half", "normalize", "clone", "subst", "inc_of",
                        "prod_inc_of", "prod_of"} /\ e.none = 0

Step ==
  /\ verdict = "run" /\ UNCHANGED t
  /\ IF l > Len(Ev)
     THEN verdict' = "accepted" /\ why' = <<"all-clauses-hold", l - 1>> /\ UNCHANGED <<l, den, def>>
     ELSE LET e == Ev[l] IN
          IF Holds(e)
          THEN /\ l' = l + 1 /\ UNCHANGED <<verdict, why>>
               /\ den' = IF Defines(e) THEN (e.id :> e.vals) @@ den ELSE den
               /\ def' = IF Defines(e) /\ Transparent(e)
                         THEN (e.id :> [op |-> e.op, a |-> e.a, b |-> e.b, c |-> e.c]) @@ def ELSE def
          ELSE /\ verdict' = "rejected" /\ UNCHANGED <<l, den, def>>
               /\ why' = <<"clause-violated", l, e.op, "operands", e.a, e.b, "result", e.vals>>
Spec == Init /\ [][Step]_vars
Report == verdict # "run" =>
  PrintT(ToJson([id |-> Cases[t].id, verdict |-> verdict, why |-> ToString(why), pos |-> l]))
=============================================================================
