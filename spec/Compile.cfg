SPECIFICATION Spec
INVARIANT Report
PROPERTY Immutable
CHECK_DEADLOCK FALSE
