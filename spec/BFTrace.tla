------------------------------ MODULE BFTrace ------------------------------
(***************************************************************************)
(* Trace validation against the canonical machine BF.                      *)
(*                                                                         *)
(* Every element of `Cases' is a recording made on the real code (one      *)
(* backend / level / width / profile / fault plan / budget) together with  *)
(* what the call claimed when it came back:                                *)
(*                                                                         *)
(*   log    the interleaved events observed at the Read / Write objects    *)
(*          handed to the runtime: <<"in", b>> (b = -1: end of input),     *)
(*          <<"out", b>>, <<"outfail", b>> (the refused byte),             *)
(*          <<"infail", 0>>                                                *)
(*   claim  "complete"   the call returned normally and stands for the     *)
(*                       whole run (execute -> Ok, execute_limited -> true)*)
(*          "returned"   the call returned normally, and the harness cannot *)
(*                       tell whether a fault was reached (an absent input *)
(*                       source leaves no trace at the Read object): the   *)
(*                       machine must have halted or stopped               *)
(*          "unfinished" execute_limited returned false                    *)
(*          "stopped"    the call returned normally after the injected     *)
(*                       I/O fault was hit                                 *)
(*          "running"    the call had not returned when it was killed      *)
(*          "crashed"    the call did not come back normally (signal,       *)
(*                       panic, error result); no behaviour of the machine *)
(*                       explains that, the trace is rejected              *)
(*          "aborted"    the process ended through the allocation-failure   *)
(*                       abort or a panic after the allocator refused a    *)
(*                       request (field `refused'); what was recorded up   *)
(*                       to then must be a prefix (C17)                    *)
(*          "classify"   no recording; just run the machine and report     *)
(*   mustFinish  1: the budget was effectively unlimited, so "unfinished"  *)
(*               is only acceptable for a canonically divergent run        *)
(*                                                                         *)
(* The trace specification takes BF's own Step and, conjoined with it,     *)
(* consumes the log: an emitted event must equal the next log entry.  A    *)
(* step that the log does not explain moves the trace to "rejected" with   *)
(* position, expected and observed event.  Each trace ends in exactly one  *)
(* of accepted / rejected / inconclusive; one TLC run validates many       *)
(* traces (one initial state each).                                        *)
(***************************************************************************)
EXTENDS BF

VARIABLES l,        \* 1-based position of the next unconsumed log entry
          verdict,  \* "run" | "accepted" | "rejected" | "inconclusive"
          why       \* explanation tuple

vars == <<machine, l, verdict, why>>

Log        == Cases[c].log
Claim      == Cases[c].claim
MustFinish == Cases[c].mustFinish = 1
Consumed(k) == k = Len(Log) + 1

PrefixClaim == Claim \in {"unfinished", "running", "aborted"}

TraceInit ==
  /\ Init
  /\ l = 1
  /\ IF Claim = "crashed"       \* killed by a signal, panicked, or returned an error
     THEN verdict = "rejected" /\ why = <<"abnormal-termination", Cases[c].detail>>
     ELSE IF Cases[c].refused > 0 /\ Claim # "aborted"
     THEN verdict = "rejected" /\ why = <<"continued-after-refused-allocation", Claim>>
     ELSE IF Claim = "aborted" /\ Cases[c].refused = 0
     THEN verdict = "rejected" /\ why = <<"aborted-without-refused-allocation", Cases[c].detail>>
     ELSE IF PrefixClaim /\ ~MustFinish /\ Log = <<>>
     THEN verdict = "accepted" /\ why = <<"prefix", 0>>
     ELSE verdict = "run" /\ why = <<>>

Decide(v, w) == verdict' = v /\ why' = w

(* The verdict after a machine step, given the new machine state (status',  *)
(* div'), the log position k after the step, and whether the step emitted   *)
(* an event that lies beyond the end of the log (only prefix claims get     *)
(* here in that case).                                                      *)
Judge(k, beyond) ==
  CASE Claim = "classify" ->
         IF status' # "run" \/ div' THEN Decide("accepted", <<"classified">>)
         ELSE Decide("run", why)
    [] Claim # "classify" /\ status' = "halted" ->
         IF ~Consumed(k) THEN Decide("rejected", <<"extra-event", k, Log[k]>>)
         ELSE CASE Claim \in {"complete", "returned"} -> Decide("accepted", <<"complete", k - 1>>)
                [] Claim = "unfinished" ->
                     IF MustFinish
                     THEN Decide("rejected", <<"unfinished-with-unlimited-budget-but-canonical-run-halts", steps'>>)
                     ELSE Decide("accepted", <<"prefix", k - 1>>)
                [] Claim = "running"    ->
                     Decide("rejected", <<"still-running-but-canonical-run-halts", steps'>>)
                [] OTHER -> Decide("rejected", <<"claimed-stopped-but-no-fault-reached", k>>)
    [] Claim # "classify" /\ status' = "stopped" ->
         IF ~Consumed(k) THEN Decide("rejected", <<"events-after-failed-operation", k, Log[k]>>)
         ELSE IF PrefixClaim
              THEN IF MustFinish /\ beyond
                   THEN Decide("rejected", <<"unfinished-with-unlimited-budget-but-canonical-run-stops", steps'>>)
                   ELSE Decide("accepted", <<"prefix", k - 1>>)
         ELSE IF Claim \in {"stopped", "returned"} THEN Decide("accepted", <<"stopped", k - 1>>)
         ELSE Decide("rejected", <<"fault-reached-but-claim-is", Claim, k>>)
    [] Claim # "classify" /\ status' = "capped" ->
         IF PrefixClaim /\ ~MustFinish /\ Consumed(k)
         THEN Decide("accepted", <<"prefix", k - 1>>)
         ELSE Decide("inconclusive", <<"cap", steps', k>>)
    [] OTHER ->      \* the machine is still running
         IF PrefixClaim /\ ~MustFinish /\ Consumed(k)
         THEN Decide("accepted", <<"prefix", k - 1>>)
         ELSE IF div' /\ Consumed(k)
         THEN IF PrefixClaim
              THEN Decide("accepted", <<"prefix-of-divergent-run", k - 1>>)
              ELSE Decide("rejected", <<"returned-but-canonical-run-diverges", Claim, steps'>>)
         ELSE IF div' /\ divSilent'    \* the canonical run is silent for ever, the log is not
         THEN Decide("rejected", <<"event-after-silent-divergence", k, Log[k]>>)
         ELSE Decide("run", why)

\* the trace specification's step: the canonical machine's action A, conjoined with the log
Observe(A) ==
  /\ verdict = "run"
  /\ A                                     \* the specification's own step
  /\ LET e      == last'
         hasEv  == e # NoEv /\ Claim # "classify"
         beyond == hasEv /\ l > Len(Log)
         match  == hasEv /\ ~beyond /\ Log[l] = e
         k      == IF match THEN l + 1 ELSE l
     IN  /\ l' = k
         /\ IF hasEv /\ ~beyond /\ ~match
            THEN Decide("rejected", <<"event-mismatch", l, e, Log[l]>>)
            ELSE IF beyond /\ ~PrefixClaim
            THEN Decide("rejected", <<"missing-event", l, e>>)
            ELSE Judge(k, beyond)

\* one trace action per machine action (so that TLC's coverage counts them separately)
TInc == Observe(Inc)            TDec == Observe(Dec)
TRight == Observe(Right)        TLeft == Observe(Left)
TOpen == Observe(Open)          TClose == Observe(Close)
TComment == Observe(Comment)    TAccel == Observe(Accel)
TOut == Observe(Out)            TOutRefused == Observe(OutRefused)
TIn == Observe(In)              TInFailed == Observe(InFailed)      TInMissing == Observe(InMissing)
THalt == Observe(Halt)          TCapped == Observe(Capped)

TraceNext == \/ TInc \/ TDec \/ TRight \/ TLeft \/ TOpen \/ TClose \/ TComment \/ TAccel
             \/ TOut \/ TOutRefused \/ TIn \/ TInFailed \/ TInMissing \/ THalt \/ TCapped

TraceSpec == TraceInit /\ [][TraceNext]_vars

-----------------------------------------------------------------------------
\* one line per finished trace, parsed by the check driver
Report ==
  verdict # "run" =>
    PrintT(ToJson([id |-> Cases[c].id, verdict |-> verdict, why |-> ToString(why),
                   class |-> Class, steps |-> steps, nout |-> outN, nin |-> ip - 1,
                   lo |-> lo, hi |-> hi, pos |-> l]))

\* sanity of the validator itself
TraceTypeOK == TypeOK /\ l \in 1..(Len(Log) + 1)
               /\ verdict \in {"run", "accepted", "rejected", "inconclusive"}
=============================================================================
