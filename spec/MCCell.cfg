SPECIFICATION Spec
INVARIANT DivMatchesBruteForce
INVARIANT ContractsMatchBruteForce
INVARIANT InvOK
INVARIANT PowOK
INVARIANT ShiftOK
INVARIANT RingOK
CHECK_DEADLOCK FALSE
