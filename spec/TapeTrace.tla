----------------------------- MODULE TapeTrace -----------------------------
(***************************************************************************)
(* Trace validation of call histories recorded on the real                 *)
(* `runtime::Memory<C>` against the property-level tape (TapeAbs).         *)
(*                                                                         *)
(* A recording is a sequence of completed calls                            *)
(*     <<op, a1, a2, ret, allocs, failed>>                                 *)
(*   op      "mov" | "read" | "write" | "acc" | "check"                    *)
(*   a1, a2  arguments (offset / value token, range bounds)                *)
(*   ret     value token returned by read, 0/1 returned by check           *)
(*   allocs  allocation requests observed during the call                  *)
(*   failed  allocation requests refused during the call (fault injection) *)
(* followed by how the history ended:                                      *)
(*   end     "ok"  every call returned                                     *)
(*           "abort" | "panic"  the process ended through the allocation   *)
(*                   failure abort / a panic during the pending call       *)
(*           "SIG..."  any other signal                                    *)
(*   refused number of refused allocation requests in total                *)
(***************************************************************************)
EXTENDS TapeAbs, Json, IOUtils

Cases == ndJsonDeserialize(IOEnv.CASES)

VARIABLES t, l, verdict, why
vars == <<abs, t, l, verdict, why>>

Ev == Cases[t].events
End == Cases[t].end
Refused == Cases[t].refused

Init == /\ AbsInit /\ t \in 1..Len(Cases) /\ l = 1 /\ verdict = "run" /\ why = <<>>

Decide(v, w) == verdict' = v /\ why' = w

AtEnd ==
  /\ l = Len(Ev) + 1
  /\ UNCHANGED <<abs, l>>
  /\ IF End = "ok"
     THEN IF Refused = 0 THEN Decide("accepted", <<"complete", l - 1>>)
          ELSE Decide("rejected", <<"continued-after-refused-allocation">>)
     ELSE IF End \in {"abort", "panic"} /\ Refused > 0
          THEN Decide("accepted", <<"clean-abort-after-refused-allocation", l - 1>>)
          ELSE Decide("rejected", <<"abnormal-end", End, Refused>>)

Call ==
  /\ l <= Len(Ev)
  /\ l' = l + 1
  /\ LET e == Ev[l]  op == e[1] IN
     IF e[6] > 0
     THEN /\ UNCHANGED abs
          /\ Decide("rejected", <<"call-returned-after-refused-allocation", l, op>>)
     ELSE
     CASE op = "mov" ->
            /\ AbsMov(e[2])
            /\ IF e[5] = 0 THEN Decide("run", why) ELSE Decide("rejected", <<"mov-allocated", l>>)
       [] op = "read" ->
            /\ AbsRead(e[2])
            /\ IF ret' # <<"read", e[4]>>
               THEN Decide("rejected", <<"read-mismatch", l, e[2], "expected", ret'[2], "observed", e[4]>>)
               ELSE IF e[5] # 0 THEN Decide("rejected", <<"read-allocated", l>>)
               ELSE Decide("run", why)
       [] op = "write" ->
            /\ AbsWrite(e[2], e[3]) /\ Decide("run", why)
       [] op = "acc" ->
            /\ AbsMakeAcc(e[2], e[3]) /\ Decide("run", why)
       [] op = "check" ->
            IF Requested(ptr + e[2]) /\ e[4] = 0
            THEN /\ UNCHANGED abs
                 /\ Decide("rejected", <<"requested-cell-reported-inaccessible", l, e[2]>>)
            ELSE /\ AbsCheck(e[2], e[4] = 1)
                 /\ IF e[5] = 0 THEN Decide("run", why) ELSE Decide("rejected", <<"check-allocated", l>>)
       [] OTHER -> /\ UNCHANGED abs /\ Decide("rejected", <<"unknown-event", l, op>>)

Next == verdict = "run" /\ (Call \/ AtEnd) /\ UNCHANGED t
Spec == Init /\ [][Next]_vars

Report == verdict # "run" =>
  PrintT(ToJson([id |-> Cases[t].id, verdict |-> verdict, why |-> ToString(why), pos |-> l]))
=============================================================================
