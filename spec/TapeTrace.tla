----------------------------- MODULE TapeTrace -----------------------------
(***************************************************************************)
(* Trace validation of call histories recorded on the real                 *)
(* `runtime::Memory<C>` against the property-level tape (TapeAbs).         *)
(*                                                                         *)
(* A recording is a sequence of completed calls                            *)
(*     <<op, a1, a2, ret, allocs, failed, q1, q2>>                         *)
(*   op      "mov" | "read" | "write" | "acc" | "check"                    *)
(*           "rt"     current_ptr() followed by set_current_ptr(): the      *)
(*                    pointer <-> offset conversion the backends use; it   *)
(*                    must leave the logical pointer where it was          *)
(*           "checkp" check_ptr(current_ptr() + a1): same answer as check  *)
(*   a1, a2  arguments (offset / value token, range bounds)                *)
(*   ret     value token returned by read, 0/1 returned by check           *)
(*   allocs  allocation requests observed during the call                  *)
(*   failed  allocation requests refused during the call (fault injection) *)
(*   q1, q2  far parts of the arguments: the real argument was             *)
(*           a1 + q1 * 2^62 (a2 + q2 * 2^62); 2^62 does not fit TLC's      *)
(*           integers, so a logical position is kept as the pair           *)
(*           (far, ptr) = far * 2^62 + ptr with a small ptr.  The machine  *)
(*           has at most 2^64 bytes, so no cell at a position with         *)
(*           far # 0 can ever be stored: reads there return 0, and a       *)
(*           write or a non-empty accessibility request that touches such  *)
(*           a position is unsatisfiable - it must end the process         *)
(*           (abort or panic) and never return.  Histories keep            *)
(*           |far| <= 3 (positions 2^64 apart are the same to the          *)
(*           implementation; that limit is not judged).                    *)
(* followed by how the history ended:                                      *)
(*   end     "ok"  every call returned                                     *)
(*           "abort" | "panic"  the process ended through the allocation   *)
(*                   failure abort / a panic during the pending call       *)
(*           "SIG..."  any other signal                                    *)
(*   refused number of refused allocation requests in total                *)
(*   pending the call that had not returned when the process ended         *)
(***************************************************************************)
EXTENDS TapeAbs, Json, IOUtils

Cases == ndJsonDeserialize(IOEnv.CASES)

VARIABLES t, l, verdict, why, far,
          claimed   \* positions for which a bounds query answered "accessible": the tape never shrinks,
                    \* so a later write there must not have to allocate
vars == <<abs, t, l, verdict, why, far, claimed>>

Ev == Cases[t].events
End == Cases[t].end
Refused == Cases[t].refused

Init == /\ AbsInit /\ t \in 1..Len(Cases) /\ l = 1 /\ verdict = "run" /\ why = <<>> /\ far = 0 /\ claimed = {}

Q1(e) == IF Len(e) >= 7 THEN e[7] ELSE 0
Q2(e) == IF Len(e) >= 8 THEN e[8] ELSE 0
\* (q, a) pairs compare lexicographically (|a| is far below 2^62)
Before(q1, a1, q2, a2) == q1 < q2 \/ (q1 = q2 /\ a1 < a2)
\* a call that no machine can satisfy: it needs a cell at a position with far # 0
Unsatisfiable(e) ==
  \/ e[1] = "write" /\ far + Q1(e) # 0
  \/ e[1] = "acc" /\ Before(Q1(e), e[2], Q2(e), e[3]) /\ (far + Q1(e) # 0 \/ far + Q2(e) # 0)
HasPending == "pending" \in DOMAIN Cases[t] /\ Cases[t].pending # <<>>

Decide(v, w) == verdict' = v /\ why' = w

AtEnd ==
  /\ l = Len(Ev) + 1
  /\ UNCHANGED <<abs, l, far, claimed>>
  /\ IF End = "ok"
     THEN IF Refused = 0 THEN Decide("accepted", <<"complete", l - 1>>)
          ELSE Decide("rejected", <<"continued-after-refused-allocation">>)
     ELSE IF End \in {"abort", "panic"} /\ Refused > 0
          THEN Decide("accepted", <<"clean-abort-after-refused-allocation", l - 1>>)
          ELSE IF End \in {"abort", "panic"} /\ HasPending /\ Unsatisfiable(Cases[t].pending)
          THEN Decide("accepted", <<"clean-end-on-unsatisfiable-request", l - 1>>)
          ELSE Decide("rejected", <<"abnormal-end", End, Refused>>)

Call ==
  /\ l <= Len(Ev)
  /\ l' = l + 1
  /\ LET e == Ev[l]  op == e[1] IN
     IF e[6] > 0
     THEN /\ UNCHANGED <<abs, far, claimed>>
          /\ Decide("rejected", <<"call-returned-after-refused-allocation", l, op>>)
     ELSE IF Unsatisfiable(e)
     THEN /\ UNCHANGED <<abs, far, claimed>>
          /\ Decide("rejected", <<"returned-from-unsatisfiable-request", l, op, far + Q1(e)>>)
     ELSE
     /\ far' = IF op = "mov" THEN far + Q1(e) ELSE far
     /\ claimed' = IF op \in {"check", "checkp"} /\ far + Q1(e) = 0 /\ e[4] = 1
                   THEN claimed \cup {ptr + e[2]} ELSE claimed
     /\ CASE op = "rt" ->
            /\ AbsMov(0)
            /\ IF e[5] = 0 THEN Decide("run", why) ELSE Decide("rejected", <<"conversion-allocated", l>>)
       [] op = "mov" ->
            /\ AbsMov(e[2])
            /\ IF e[5] = 0 THEN Decide("run", why) ELSE Decide("rejected", <<"mov-allocated", l>>)
       [] op = "read" /\ far + Q1(e) # 0 ->
            \* no cell can be stored there
            /\ ret' = <<"read", 0>> /\ UNCHANGED <<cells, ptr, accLo, accHi>>
            /\ IF e[4] # 0 THEN Decide("rejected", <<"far-read-mismatch", l, "expected", 0, "observed", e[4]>>)
               ELSE IF e[5] # 0 THEN Decide("rejected", <<"read-allocated", l>>)
               ELSE Decide("run", why)
       [] op \in {"check", "checkp"} /\ far + Q1(e) # 0 ->
            \* nothing was ever requested there: any answer, but no allocation
            /\ ret' = <<"check", e[4] = 1>> /\ UNCHANGED <<cells, ptr, accLo, accHi>>
            /\ IF e[5] = 0 THEN Decide("run", why) ELSE Decide("rejected", <<"check-allocated", l>>)
       [] op = "acc" /\ ~Before(Q1(e), e[2], Q2(e), e[3]) ->
            \* an empty range requests nothing
            /\ ret' = <<"acc">> /\ UNCHANGED <<cells, ptr, accLo, accHi>> /\ Decide("run", why)
       [] op = "read" ->
            /\ AbsRead(e[2])
            /\ IF ret' # <<"read", e[4]>>
               THEN Decide("rejected", <<"read-mismatch", l, e[2], "expected", ret'[2], "observed", e[4]>>)
               ELSE IF e[5] # 0 THEN Decide("rejected", <<"read-allocated", l>>)
               ELSE Decide("run", why)
       [] op = "write" ->
            /\ AbsWrite(e[2], e[3])
            /\ IF (ptr + e[2]) \in claimed /\ e[5] > 0
               THEN Decide("rejected", <<"cell-was-reported-accessible-but-the-write-allocated", l, e[2]>>)
               ELSE Decide("run", why)
       [] op = "acc" ->
            /\ AbsMakeAcc(e[2], e[3]) /\ Decide("run", why)
       [] op \in {"check", "checkp"} ->
            IF Requested(ptr + e[2]) /\ e[4] = 0
            THEN /\ UNCHANGED abs
                 /\ Decide("rejected", <<"requested-cell-reported-inaccessible", l, e[2]>>)
            ELSE /\ AbsCheck(e[2], e[4] = 1)
                 /\ IF e[5] = 0 THEN Decide("run", why) ELSE Decide("rejected", <<"check-allocated", l>>)
       [] OTHER -> /\ UNCHANGED abs /\ Decide("rejected", <<"unknown-event", l, op>>)

Next == verdict = "run" /\ (Call \/ AtEnd) /\ UNCHANGED t
Spec == Init /\ [][Next]_vars

Report == verdict # "run" =>
  PrintT(ToJson([id |-> Cases[t].id, verdict |-> verdict, why |-> ToString(why), pos |-> l]))
=============================================================================
