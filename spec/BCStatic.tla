------------------------------ MODULE BCStatic ------------------------------
(***************************************************************************)
(* C11: the safety contract that the unsafe backends (threaded-code        *)
(* interpreter, baseline JIT) assume of a bytecode program, checked on     *)
(* *every control path* of the bytecode that the executors actually hold   *)
(* (dumped through hook H1).  Branches are nondeterministic, so TLC visits *)
(* every path; the state is an abstract interpretation:                    *)
(*                                                                         *)
(*   p     index of the program (chosen in Init)                           *)
(*   pc    0-based instruction index (as in the Rust code)                 *)
(*   defd  temporaries written on the path so far                          *)
(*   dead  register temporaries (index < nregs) that some instruction on   *)
(*         the path was allowed to clobber: their bit in the live bitmap   *)
(*         non-branch instruction was clear and the instruction did not    *)
(*         write them                                                      *)
(*   bad   <<>> or the first broken clause                                 *)
(*                                                                         *)
(* Clauses, per instruction, in this order:                                *)
(*   window   min <= 0 <= max, every tape operand offset in [min, max]     *)
(*   temps    every temporary index < temps                                *)
(*   target   every branch lands in 0..Len(insts)                          *)
(*   defined  every temporary read was written before on this path         *)
(*   live     every temporary read was not declared clobberable since its  *)
(*            last write                                                   *)
(***************************************************************************)
EXTENDS Integers, Sequences, FiniteSets, TLC, Json, IOUtils

Progs == ndJsonDeserialize(IOEnv.CASES)

VARIABLES p, pc, defd, dead, bad
vars == <<p, pc, defd, dead, bad>>

Insts == Progs[p].insts
N     == Len(Insts)
Ins(i) == Insts[i + 1]                 \* 0-based access
Live(i) == Progs[p].live[i + 1]
Bit(x, t) == (x \div (2 ^ t)) % 2 = 1

IsLoc(x) == x[1] \in {"m", "z", "t", "i"}
Op(i) == Ins(i)[1]
IsBranch(i) == Op(i) \in {"brz", "brnz"}
\* location operands of an instruction: <<dst, srcs>>
Dst(i)  == IF Op(i) \in {"add", "sub", "mul", "copy"} THEN <<Ins(i)[2]>> ELSE <<>>
Srcs(i) == IF Op(i) \in {"add", "sub", "mul"} THEN <<Ins(i)[3], Ins(i)[4]>>
           ELSE IF Op(i) = "copy" THEN <<Ins(i)[3]>> ELSE <<>>
Locs(i) == Dst(i) \o Srcs(i)
Range(s) == {s[k] : k \in DOMAIN s}
TmpsOf(s) == {x[2] : x \in {y \in Range(s) : y[1] = "t"}}
\* tape offsets the instruction touches
Offsets(i) ==
  {x[2] : x \in {y \in Range(Locs(i)) : y[1] \in {"m", "z"}}}
  \cup (IF Op(i) \in {"scan", "inp", "out", "brz", "brnz"} THEN {Ins(i)[2]} ELSE {})

Min == Progs[p].min
Max == Progs[p].max
Temps == Progs[p].temps
\* temporaries below this index live in registers (2 in the threaded-code
\* interpreter, 11 in the baseline JIT); the live bitmap only speaks about those
NRegs == Progs[p].nregs

Init == p \in 1..Len(Progs) /\ pc = 0 /\ defd = {} /\ dead = {} /\ bad = <<>>

Fail(what, arg) == bad' = <<what, pc, arg>> /\ UNCHANGED <<p, pc, defd, dead>>

Step ==
  /\ bad = <<>> /\ pc < N
  /\ LET reads  == TmpsOf(Srcs(pc))
         writes == TmpsOf(Dst(pc))
     IN
     IF ~(Min <= 0 /\ 0 <= Max) THEN Fail("window-does-not-contain-0", 0)
     ELSE IF \E o \in Offsets(pc) : o < Min \/ o > Max
     THEN Fail("operand-outside-window", CHOOSE o \in Offsets(pc) : o < Min \/ o > Max)
     ELSE IF \E t \in reads \cup writes : t >= Temps
     THEN Fail("temporary-index-too-large", CHOOSE t \in reads \cup writes : t >= Temps)
     ELSE IF IsBranch(pc) /\ ~(pc + Ins(pc)[3] \in 0..N)
     THEN Fail("branch-target-outside-program", pc + Ins(pc)[3])
     ELSE IF \E t \in reads : t \notin defd
     THEN Fail("temporary-read-before-written", CHOOSE t \in reads : t \notin defd)
     ELSE IF \E t \in reads : t \in dead
     THEN Fail("temporary-read-after-declared-dead", CHOOSE t \in reads : t \in dead)
     ELSE
       /\ bad' = bad /\ p' = p
       /\ defd' = defd \cup writes
       /\ dead' = IF IsBranch(pc) THEN dead
                  ELSE ((dead \cup {t \in defd : t < NRegs /\ ~Bit(Live(pc), t)}) \ writes)
       /\ \/ pc' = pc + 1
          \/ IsBranch(pc) /\ pc' = pc + Ins(pc)[3]

Spec == Init /\ [][Step]_vars

\* one line when a program is loaded, one line for every failure found
Report ==
  /\ (pc = 0 /\ defd = {} /\ bad = <<>>) => PrintT(ToJson([id |-> Progs[p].id, loaded |-> 1]))
  /\ bad # <<>> => PrintT(ToJson([id |-> Progs[p].id, verdict |-> "rejected", why |-> ToString(bad)]))
=============================================================================
