SPECIFICATION Spec
INVARIANT Refinement
INVARIANT Emit
PROPERTY NoAllocOnQuery
PROPERTY GrowthPreserves
PROPERTY AbortIsFinal
CONSTRAINT SizeBound
VIEW View
CHECK_DEADLOCK FALSE
