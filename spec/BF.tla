-------------------------------- MODULE BF --------------------------------
(***************************************************************************)
(* The canonical Brainfuck machine: the oracle of properties C01-C08, C10, *)
(* C12 and C16.  It says exactly what the property statements say:         *)
(*   - cells are Z/2^W, the tape is unbounded in both directions and       *)
(*     all-zero initially (a sparse function; absent = 0);                 *)
(*   - ',' stores the next input byte, or 0 at end of input;               *)
(*   - '.' emits the low 8 bits of the current cell;                       *)
(*   - '[' / ']' are the usual while-loop; every other character is a      *)
(*     comment;                                                            *)
(*   - the environment may refuse an output byte, fail an input request,   *)
(*     or have no input source / no output sink at all (the fault plan of  *)
(*     the case); a refused or failed operation stops the run.             *)
(*                                                                         *)
(* One action per source character (Inc Dec Left Right Out In Open Close   *)
(* Comment), Accel (a whole linear loop at once, only for cases that ask   *)
(* for it), Halt at the end of the text, the environment actions           *)
(* OutRefused / InFailed / InAbsent, and Capped (model-checking bound).    *)
(* The machine is deterministic once the case (program, width, input       *)
(* stream, fault plan) is chosen in Init.                                  *)
(*                                                                         *)
(* `last' is the event emitted by the most recent step (NoEv for a silent  *)
(* step); the event history of a run is the sequence of non-empty `last'   *)
(* values.  Trace specifications match `last'' against recorded logs,      *)
(* model-checking instances accumulate it in a history variable.           *)
(*                                                                         *)
(* Divergence is decided inside the model: `snap' holds one earlier        *)
(* configuration, refreshed at step counts 2^k (Brent's cycle detection).  *)
(* Because the machine is deterministic and a configuration contains       *)
(* everything the future depends on, reaching `snap' again proves that the *)
(* canonical run never halts (`div' = TRUE).                               *)
(***************************************************************************)
EXTENDS Integers, Sequences, FiniteSets, TLC, Cell, Json, IOUtils

(* The cases and the bounds come from the environment of the TLC run.  (They  *)
(* are definitions rather than CONSTANTS assigned in the .cfg file because   *)
(* TLC re-evaluates a `<-' substitution at every use - measured: 170         *)
(* states/min instead of 100 000/s - while a constant definition is          *)
(* evaluated once.)                                                          *)
Cases    == ndJsonDeserialize(IOEnv.CASES)   \* sequence of case records (see below)
MaxSteps == atoi(IOEnv.MAXSTEPS)             \* bound on machine steps per case
MaxEv    == atoi(IOEnv.MAXEV)                \* bound on events per case

(* A case record:                                                           *)
(*   prog      sequence of one-character strings                            *)
(*   w         cell width in bits                                           *)
(*   input     sequence of bytes                                            *)
(*   outFail   -1, or k >= 0: the sink refuses the output attempted after   *)
(*             k successful ones                                            *)
(*   inFail    -1, or j >= 0: the input request after j earlier requests    *)
(*             returns an error                                             *)
(*   inAbsent  1 if there is no input source                                *)
(*   outAbsent 1 if there is no output sink (output is discarded, which is  *)
(*             not a failure)                                               *)
None == -1
NoEv == <<>>

VARIABLES c,        \* index of the case, chosen in Init
          pc,       \* 1-based position in the program text
          ptr,      \* data pointer (any integer)
          tape,     \* sparse tape: ptr -> non-zero cell
          ip,       \* 1-based index of the next input request
          outN,     \* number of successful outputs so far
          evN,      \* number of events so far
          last,     \* event emitted by the last step, or NoEv
          status,   \* "run" | "halted" | "stopped" | "capped"
          steps,    \* machine steps taken
          lo, hi,   \* pointer excursion so far
          snap, snapAt,  \* Brent snapshot and the step count of the next one
          snapEv,   \* number of events when the snapshot was taken
          div,      \* TRUE once the run is proved divergent
          divSilent, \* TRUE if the proved cycle emits no event (the run is silent for ever)
          jt        \* bracket table of the case: position of "[" <-> position of its "]"

machine == <<c, pc, ptr, tape, ip, outN, evN, last, status, steps, lo, hi, snap, snapAt, snapEv, div, divSilent, jt>>

Prog      == Cases[c].prog
W         == Cases[c].w
Input     == Cases[c].input
OutFail   == Cases[c].outFail
InFail    == Cases[c].inFail
InAbsent  == Cases[c].inAbsent = 1
OutAbsent == Cases[c].outAbsent = 1
\* 1 if input requests cannot be observed (runs of the command line binary): they emit no event
InSilent  == Cases[c].inSilent = 1

-----------------------------------------------------------------------------
(* Matching brackets, computed once per case by a stack scan.               *)
RECURSIVE MatchFrom(_, _, _, _)
MatchFrom(prog, i, stack, acc) ==
  IF i > Len(prog) THEN acc
  ELSE IF prog[i] = "[" THEN MatchFrom(prog, i + 1, <<i>> \o stack, acc)
  ELSE IF prog[i] = "]" /\ stack # <<>>
       THEN MatchFrom(prog, i + 1, Tail(stack),
                      (i :> Head(stack)) @@ (Head(stack) :> i) @@ acc)
  ELSE MatchFrom(prog, i + 1, stack, acc)
\* (The table is computed once per case, in Init, and carried in the state variable `jt': a
\* function constructor [k \in .. |-> MatchFrom(..)] would be re-evaluated at every application,
\* 50 ms for a program of 1 300 characters.)
JumpOf(k) == MatchFrom(Cases[k].prog, 1, <<>>, <<>>)

Min(a, b) == IF a < b THEN a ELSE b
Max(a, b) == IF a > b THEN a ELSE b

-----------------------------------------------------------------------------
(* Linear loops.  A loop whose body consists of + - < > only, returns the    *)
(* pointer to where it started and changes the cell under the pointer by     *)
(* exactly -1 (or +1) per iteration performs no I/O and runs, from a counter *)
(* value n # 0, exactly n (2^W - n) iterations, each adding the body's net   *)
(* delta d[o] to the cell at offset o.  Its whole effect is therefore        *)
(*     cell[o] += iterations * d[o]  (o # 0),   counter = 0,                 *)
(* which the action Accel takes in one step when the case asks for it        *)
(* (field accel = 1): runs whose canonical length is 2^32 steps and more     *)
(* become checkable.  MCBF checks the summary against the step-by-step run   *)
(* on every enumerated program (invariant AccelSound).                       *)
Bump(d, o, k) == IF o \in DOMAIN d THEN [d EXCEPT ![o] = @ + k] ELSE (o :> k) @@ d
\* effect of the straight-line text prog[i..j]: <<final offset, deltas, min offset, max offset>>,
\* or <<>> if it contains anything but + - < >
RECURSIVE BodyEffect(_, _, _, _, _, _, _)
BodyEffect(prog, i, j, off, d, mn, mx) ==
  IF i > j THEN <<off, d, mn, mx>>
  ELSE IF prog[i] = ">" THEN BodyEffect(prog, i + 1, j, off + 1, d, mn, Max(mx, off + 1))
  ELSE IF prog[i] = "<" THEN BodyEffect(prog, i + 1, j, off - 1, d, Min(mn, off - 1), mx)
  ELSE IF prog[i] = "+" THEN BodyEffect(prog, i + 1, j, off, Bump(d, off, 1), mn, mx)
  ELSE IF prog[i] = "-" THEN BodyEffect(prog, i + 1, j, off, Bump(d, off, -1), mn, mx)
  ELSE <<>>
\* the effect of the loop whose "[" is at p (closing bracket at j) if it is linear, else <<>>
LoopEff(prog, p, j) ==
  LET e == BodyEffect(prog, p + 1, j - 1, 0, <<>>, 0, 0) IN
    IF e # <<>> /\ e[1] = 0 /\ 0 \in DOMAIN e[2] /\ e[2][0] \in {-1, 1} THEN e ELSE <<>>
AccelCase(k) == "accel" \in DOMAIN Cases[k] /\ Cases[k].accel = 1

Cell(p) == IF p \in DOMAIN tape THEN tape[p] ELSE CZero(W)
\* tapes are kept normalised (no explicit zero entries), so that equal
\* contents are equal values
Put(p, v) ==
  IF CIsZero(v)
  THEN IF p \in DOMAIN tape THEN [q \in DOMAIN tape \ {p} |-> tape[q]] ELSE tape
  ELSE IF p \in DOMAIN tape THEN [tape EXCEPT ![p] = v] ELSE (p :> v) @@ tape

\* Everything the future of the run depends on.  The input position stops
\* mattering once the stream is exhausted (every later request reads 0),
\* unless a later request is planned to fail; the output count matters only
\* if a refusal is planned.
Config(pc2, ptr2, tape2, ip2, outN2) ==
  <<pc2, ptr2, tape2,
    IF InFail = None THEN Min(ip2, Len(Input) + 1) ELSE ip2,
    IF OutFail = None \/ OutAbsent THEN 0 ELSE outN2>>

Init ==
  /\ c \in 1..Len(Cases)
  /\ pc = 1 /\ ptr = 0 /\ tape = <<>> /\ ip = 1 /\ outN = 0 /\ evN = 0
  /\ last = NoEv /\ status = "run" /\ steps = 0 /\ lo = 0 /\ hi = 0
  /\ snap = <<>> /\ snapAt = 1 /\ snapEv = 0 /\ div = FALSE /\ divSilent = FALSE
  /\ jt = JumpOf(c)

Running == status = "run" /\ steps < MaxSteps /\ evN < MaxEv
Op      == IF pc <= Len(Prog) THEN Prog[pc] ELSE "end"

\* one machine step to the given successor configuration, emitting `e'; the pointer
\* visited [loX, hiX] on the way (a single position except for an accelerated loop)
AdvanceX(pc2, ptr2, tape2, ip2, outN2, e, loX, hiX) ==
  /\ pc' = pc2 /\ ptr' = ptr2 /\ tape' = tape2 /\ ip' = ip2 /\ outN' = outN2
  /\ last' = e /\ evN' = IF e = NoEv THEN evN ELSE evN + 1
  /\ steps' = steps + 1 /\ status' = "run"
  /\ lo' = Min(lo, loX) /\ hi' = Max(hi, hiX)
  /\ LET cfg == Config(pc2, ptr2, tape2, ip2, outN2) IN
       IF cfg = snap /\ ~div
       THEN /\ div' = TRUE
            /\ divSilent' = ((IF e = NoEv THEN evN ELSE evN + 1) = snapEv)
            /\ UNCHANGED <<snap, snapAt, snapEv>>
       ELSE IF steps + 1 = snapAt /\ ~div
            THEN /\ snap' = cfg /\ snapAt' = 2 * snapAt
                 /\ snapEv' = (IF e = NoEv THEN evN ELSE evN + 1)
                 /\ UNCHANGED <<div, divSilent>>
            ELSE UNCHANGED <<snap, snapAt, snapEv, div, divSilent>>
  /\ UNCHANGED <<c, jt>>
Advance(pc2, ptr2, tape2, ip2, outN2, e) == AdvanceX(pc2, ptr2, tape2, ip2, outN2, e, ptr2, ptr2)

\* the run ends in the given status, emitting `e'
Finish(s, e) ==
  /\ status' = s /\ last' = e /\ evN' = IF e = NoEv THEN evN ELSE evN + 1
  /\ UNCHANGED <<c, pc, ptr, tape, ip, outN, steps, lo, hi, snap, snapAt, snapEv, div, divSilent, jt>>

Silent(pc2, ptr2, tape2) == Advance(pc2, ptr2, tape2, ip, outN, NoEv)

Inc   == Running /\ Op = "+" /\ Silent(pc + 1, ptr, Put(ptr, CInc(Cell(ptr), W)))
Dec   == Running /\ Op = "-" /\ Silent(pc + 1, ptr, Put(ptr, CDec(Cell(ptr), W)))
Right == Running /\ Op = ">" /\ Silent(pc + 1, ptr + 1, tape)
Left  == Running /\ Op = "<" /\ Silent(pc + 1, ptr - 1, tape)
\* the tape after the linear loop at `p' (effect eff) has run to completion from tape t, pointer q
\* 0 <= n < 2^31 as a cell (TLC's integers are 32 bit: no power beyond 256^3 is formed)
CSmall(n, w) == [i \in 1..NL(w) |-> IF i > 4 THEN 0 ELSE (n \div (Base(w) ^ (i - 1))) % Base(w)]
CSigned(k, w) == IF k >= 0 THEN CSmall(k, w) ELSE CNeg(CSmall(-k, w), w)
AccelTape(t, q, eff, w) ==
  LET at(x)  == IF x \in DOMAIN t THEN t[x] ELSE CZero(w)
      n      == IF eff[2][0] = -1 THEN at(q) ELSE CNeg(at(q), w)          \* number of iterations
      new(x) == IF x = q THEN CZero(w)
                ELSE IF (x - q) \in DOMAIN eff[2]
                     THEN CAdd(at(x), CMul(n, CSigned(eff[2][x - q], w), w), w)
                     ELSE at(x)
      dom    == {x \in (DOMAIN t) \cup {q + o : o \in DOMAIN eff[2]} : ~CIsZero(new(x))}
  IN [x \in dom |-> new(x)]
Accelerable == /\ AccelCase(c) /\ Op = "[" /\ ~CIsZero(Cell(ptr))
               /\ LoopEff(Prog, pc, jt[pc]) # <<>>
Accel == /\ Running /\ Accelerable
         /\ LET eff == LoopEff(Prog, pc, jt[pc]) IN
              AdvanceX(jt[pc] + 1, ptr, AccelTape(tape, ptr, eff, W), ip, outN, NoEv,
                       ptr + eff[3], ptr + eff[4])
Open  == Running /\ Op = "[" /\ ~Accelerable
         /\ Silent(IF CIsZero(Cell(ptr)) THEN jt[pc] + 1 ELSE pc + 1, ptr, tape)
Close == Running /\ Op = "]"
         /\ Silent(IF CIsZero(Cell(ptr)) THEN pc + 1 ELSE jt[pc] + 1, ptr, tape)
Comment == Running /\ Op \notin {"+", "-", ">", "<", "[", "]", ".", ",", "end"}
           /\ Silent(pc + 1, ptr, tape)

Out == /\ Running /\ Op = "."
       /\ OutAbsent \/ OutFail # outN
       /\ Advance(pc + 1, ptr, tape, ip, outN + 1,
                  IF OutAbsent THEN NoEv ELSE <<"out", CByte(Cell(ptr))>>)
OutRefused ==
       /\ Running /\ Op = "." /\ ~OutAbsent /\ OutFail = outN
       /\ Finish("stopped", <<"outfail", CByte(Cell(ptr))>>)

In == /\ Running /\ Op = "," /\ ~InAbsent /\ InFail # ip - 1
      /\ LET b == IF ip <= Len(Input) THEN Input[ip] ELSE 0 IN
           Advance(pc + 1, ptr, Put(ptr, CFromByte(b, W)), ip + 1, outN,
                   IF InSilent THEN NoEv ELSE <<"in", IF ip <= Len(Input) THEN Input[ip] ELSE -1>>)
InFailed == /\ Running /\ Op = "," /\ ~InAbsent /\ InFail = ip - 1
            /\ Finish("stopped", <<"infail", 0>>)
InMissing == /\ Running /\ Op = "," /\ InAbsent
             /\ Finish("stopped", NoEv)

Halt   == Running /\ Op = "end" /\ Finish("halted", NoEv)
Capped == status = "run" /\ ~Running /\ Finish("capped", NoEv)

Step == \/ Inc \/ Dec \/ Right \/ Left \/ Open \/ Close \/ Comment \/ Accel
        \/ Out \/ OutRefused \/ In \/ InFailed \/ InMissing
        \/ Halt \/ Capped

Spec == Init /\ [][Step]_machine

-----------------------------------------------------------------------------
Class == IF status = "halted" THEN "halts"
         ELSE IF status = "stopped" THEN "stops"
         ELSE IF div THEN "diverges" ELSE "unknown"

TypeOK ==
  /\ c \in 1..Len(Cases) /\ pc \in 1..(Len(Prog) + 1) /\ ptr \in Int
  /\ \A p \in DOMAIN tape : Len(tape[p]) = NL(W) /\ ~CIsZero(tape[p])
                            /\ \A i \in 1..NL(W) : tape[p][i] \in 0..(Base(W) - 1)
  /\ ip >= 1 /\ outN >= 0 /\ evN >= 0 /\ lo <= ptr /\ ptr <= hi
  /\ status \in {"run", "halted", "stopped", "capped"}
=============================================================================
