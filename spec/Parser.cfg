SPECIFICATION Spec
INVARIANT Report
INVARIANT StackOK
CHECK_DEADLOCK FALSE
