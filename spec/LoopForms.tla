------------------------------- MODULE LoopForms -------------------------------
(***************************************************************************)
(* The loop algebra of the optimiser (src/opt.rs analyze_loop :667 and     *)
(* loop_motion :711), as a state machine.                                  *)
(*                                                                         *)
(* Property level: a counting loop runs step by step on concrete cells     *)
(* (c = counter, x, y), exactly as canonical Brainfuck runs the idiom:     *)
(*     lin    [ x += k ; c += inc ]                                        *)
(*     triA   [ y += x ; x += d ; c += inc ]                               *)
(*     triB   [ x += d ; y += x ; c += inc ]                               *)
(*     geo    [ x := mul*x + i ; c += inc ]                                *)
(*     geoT   [ x := mul*x + y + u ; y := 0 ; c += inc ]   (u a cell the   *)
(*            loop leaves alone, y one it consumes: the increment is not   *)
(*            loop-constant, the geometric closed form must not be used)   *)
(* and the same bodies with a counter that is *set* at the end of the body *)
(* (c := inc): 0 makes the loop an If, anything else a loop that is never  *)
(* left once entered.                                                      *)
(* The loop is left when c = 0 at its test ("exit"); a counter that has    *)
(* not reached 0 after 2^w iterations never will ("spin": the sequence     *)
(* c + j*inc is periodic with a period dividing 2^w).                      *)
(*                                                                         *)
(* Implementation level: what the optimiser *predicts* at loop entry, as   *)
(* coded -                                                                 *)
(*   trip count, counter known:    wrapping_div(m, -inc), none = infinite  *)
(*   trip count, counter unknown:  inv(-inc)*m when -inc is odd, infinite  *)
(*                                 when inc = 0, otherwise unknown         *)
(*   lin:   x + n*k                                                        *)
(*   tri:   n*initial + n(n-1)/2*increment with the division by two taken  *)
(*          from whichever of increment, n, n-1 is even (Expr::half), not  *)
(*          hoisted when none of them can be halved (symbolic n)           *)
(*   geo:   pow*x + sum*i, pow and sum by the doubling loop over the bits  *)
(*          of the constant trip count; mul^n * x by wrapping_pow if i = 0 *)
(* The invariants say that every prediction equals what the step-by-step   *)
(* run produced: TripOK, LinOK, TriOK, GeoOK.  TLC checks them for every   *)
(* parameter combination at the widths 1..MAXW (exhaustive; x0 from a      *)
(* small set at the largest width).                                        *)
(*                                                                         *)
(* Generation (GEN = 1): the same forms at the real width 8 over a         *)
(* parameter grid; every case is printed as one JSON line with the         *)
(* Brainfuck text of the idiom (population F of C01-C03, C05), the         *)
(* predicted trip count and the class (halts / diverges).  The programs    *)
(* run on the real optimiser and back ends and their recordings are        *)
(* judged by BFTrace against BF.tla - not against these predictions.       *)
(***************************************************************************)
EXTENDS Cell, TLC, IOUtils, Json

MaxW == atoi(IOEnv.MAXW)
GEN  == atoi(IOEnv.GEN)
\* self-test switch (./check selftest): 1 = triangular sum with n*n for n*(n-1), 2 = geometric sum shifted by
\* one power, 3 = trip count by plain inverse for every step; TLC has to refute each of them
MUT  == atoi(IOEnv.MUT)

VARIABLES w,      \* cell width
          form,   \* "lin" | "triA" | "triB" | "geo"
          known,  \* does the optimiser know the initial counter value?
          ctr,    \* "step": c += inc each iteration; "set": c := inc at the end of the body (analyze_loop's
                  \* stored_cond: 0 = runs at most once, anything else = never leaves once entered)
          par,    \* [m, inc, a, b, x0]: a = k | d | mul, b = i (geo only)
          c, x, y, it, phase
vars == <<w, form, known, ctr, par, c, x, y, it, phase>>

M(W) == 2 ^ W
Y0 == 3

----------------------------------------------------------------------------
(* Ring helpers on plain integers at small widths (one limb in Cell.tla).   *)
IntOf(v, W) == CToInt(v, W)
Cel(n, W) == CFromInt(n % M(W), W)
Even(n) == n % 2 = 0

\* analyze_loop: -1 = infinite (never leaves once entered), -2 = unknown, otherwise the trip count
TripKnown(m, inc, W) ==
  IF m = 0 THEN 0
  ELSE LET r == CDiv(Cel(m, W), CNeg(Cel(inc, W), W), W) IN
       IF r = NoCell THEN -1 ELSE IntOf(r, W)
TripSym(m, inc, W) ==
  LET ninc == CNeg(Cel(inc, W), W)
      inv  == CInv(ninc, W) IN
  IF inv # NoCell THEN IntOf(CMul(inv, Cel(m, W), W), W)
  ELSE IF MUT = 3 /\ inc # 0 THEN IntOf(CMul(CInv(CInc(ninc, W), W), Cel(m, W), W), W)
  ELSE IF inc = 0 THEN (IF m = 0 THEN 0 ELSE -1)
  ELSE -2
TripSet(m, inc) == IF m = 0 THEN 0 ELSE IF inc = 0 THEN 1 ELSE -1
Trip(kn, ct, m, inc, W) == IF ct = "set" THEN TripSet(m, inc)
                           ELSE IF kn THEN TripKnown(m, inc, W) ELSE TripSym(m, inc, W)

\* loop_motion, mul = 1: sum over the iterations of a linear variable (initial, increment);
\* "none" = not hoisted (the accumulation stays in the loop)
TriCode(kn, n, init, incr, W) ==
  LET MM == M(W)
      nm1 == IF MUT = 1 THEN n ELSE (n + MM - 1) % MM IN
  IF Even(incr) THEN (n * init + n * nm1 * (incr \div 2)) % MM
  ELSE IF kn /\ Even(n) THEN (n * init + nm1 * incr * (n \div 2)) % MM
  ELSE IF kn /\ Even(nm1) THEN (n * init + n * incr * (nm1 \div 2)) % MM
  ELSE -1

\* loop_motion, mul # 1, constant trip count: doubling over the bits of n, most significant first
RECURSIVE GeoLoop(_, _, _, _, _, _)
GeoLoop(bit, sum, pow, n, mul, W) ==
  IF bit < 0 THEN <<pow, sum>>
  ELSE LET MM == M(W)
           s1 == (sum * (pow + 1)) % MM
           p1 == (pow * pow) % MM IN
       IF (n \div (2 ^ bit)) % 2 = 1
       THEN GeoLoop(bit - 1, (s1 * mul + (IF MUT = 2 THEN mul ELSE 1)) % MM, (p1 * mul) % MM, n, mul, W)
       ELSE GeoLoop(bit - 1, s1, p1, n, mul, W)
GeoCode(n, mul, W) == GeoLoop(W - 1, 0, 1, n, mul, W)

----------------------------------------------------------------------------
Forms == {"lin", "triA", "triB", "geo", "geoT"}
SmallX(W) == IF W < MaxW \/ W <= 3 THEN 0..(M(W) - 1) ELSE {0, 1, 2, M(W) - 1}

\* parameter sets: everything at the model-checking widths, a grid at the real width 8 for generation
\* (steps -1 -2 -3 -4 -6 +1 +2 and 0; addends and multipliers 0..5, -1, -2)
GenM   == {0, 1, 2, 3, 4, 5, 6, 7, 8, 9, 10, 12, 16}
GenInc == {255, 254, 253, 252, 250, 1, 2, 0}
GenA   == {0, 1, 2, 3, 4, 5, 255, 254}
GenB   == {0, 1, 2, 3}
GenX   == {0, 1, 2, 3, 5}
MSet(W)   == IF GEN = 1 THEN GenM   ELSE 0..(M(W) - 1)
IncSet(W) == IF GEN = 1 THEN GenInc ELSE 0..(M(W) - 1)
ASet(W)   == IF GEN = 1 THEN GenA   ELSE 0..(M(W) - 1)
BSet(W)   == IF GEN = 1 THEN GenB   ELSE 0..(M(W) - 1)
XSet(W)   == IF GEN = 1 THEN GenX   ELSE SmallX(W)

Init == /\ w \in (IF GEN = 1 THEN {8} ELSE 1..MaxW)
        /\ form \in Forms
        /\ known \in BOOLEAN
        /\ ctr \in {"step", "set"}
        /\ (form = "geo" => known)                 \* the geometric form needs a constant trip count
        /\ par = [m |-> 0, inc |-> 0, a |-> 0, b |-> 0, x0 |-> 0]
        /\ c = 0 /\ x = 0 /\ y = Y0 % M(w) /\ it = 0 /\ phase = "pick1"

Pick1 == /\ phase = "pick1"
         /\ \E m \in MSet(w), inc \in IncSet(w) :
              par' = [par EXCEPT !.m = m, !.inc = inc]
         /\ phase' = "pick2"
         /\ UNCHANGED <<w, form, known, ctr, c, x, y, it>>

Pick2 == /\ phase = "pick2"
         /\ \E a \in ASet(w), x0 \in XSet(w),
               b \in (IF form \in {"geo", "geoT"} THEN BSet(w) ELSE {0}) :
              /\ par' = [par EXCEPT !.a = a, !.b = b, !.x0 = x0]
              /\ c' = par.m /\ x' = x0
         /\ phase' = (IF GEN = 1 THEN "emit" ELSE "run")
         /\ UNCHANGED <<w, form, known, ctr, y, it>>

\* one iteration of the idiom, as canonical Brainfuck performs it
Iterate ==
  LET MM == M(w) IN
  /\ phase = "run" /\ c # 0 /\ it < MM
  /\ CASE form = "lin"  -> x' = (x + par.a) % MM /\ y' = y
       [] form = "triA" -> y' = (y + x) % MM /\ x' = (x + par.a) % MM
       [] form = "triB" -> x' = (x + par.a) % MM /\ y' = (y + x + par.a) % MM
       [] form = "geo"  -> x' = (par.a * x + par.b) % MM /\ y' = y
       [] form = "geoT" -> x' = (par.a * x + y + par.b) % MM /\ y' = 0
  /\ c' = (IF ctr = "step" THEN (c + par.inc) % MM ELSE par.inc)
  /\ it' = it + 1
  /\ UNCHANGED <<w, form, known, ctr, par, phase>>
Exit == phase = "run" /\ c = 0 /\ phase' = "exit" /\ UNCHANGED <<w, form, known, ctr, par, c, x, y, it>>
Spin == phase = "run" /\ c # 0 /\ it = M(w) /\ phase' = "spin"
        /\ UNCHANGED <<w, form, known, ctr, par, c, x, y, it>>

Next == Pick1 \/ Pick2 \/ Iterate \/ Exit \/ Spin
Spec == Init /\ [][Next]_vars

----------------------------------------------------------------------------
N == Trip(known, ctr, par.m, par.inc, w)

TripOK ==
  /\ phase = "exit" => (N = it \/ N = -2)
  /\ phase = "spin" => (N = -1 \/ N = -2)
\* an unknown trip count is only ever reported for an even non-zero step with an unknown counter
UnknownOnlyWhenEvenStep == (phase \in {"exit", "spin"} /\ N = -2) => (ctr = "step" /\ ~known /\ Even(par.inc) /\ par.inc # 0)

LinOK == (phase = "exit" /\ form = "lin" /\ N >= 0) => x = (par.x0 + N * par.a) % M(w)

TriOK ==
  (phase = "exit" /\ form \in {"triA", "triB"} /\ N >= 0) =>
     LET t == TriCode(known, N, par.x0, par.a, w)
         extra == IF form = "triB" THEN N * par.a ELSE 0 IN
     /\ t >= 0 => y = (Y0 + extra + t) % M(w)
     /\ known => t >= 0                   \* with a constant trip count one of the three halvings applies
     /\ x = (par.x0 + N * par.a) % M(w)   \* the linear variable itself

GeoOK ==
  (phase = "exit" /\ form = "geo" /\ N >= 0) =>
     LET g == GeoCode(N, par.a, w) IN
     /\ x = (g[1] * par.x0 + g[2] * par.b) % M(w)
     /\ g[1] = IntOf(CPow(Cel(par.a, w), Cel(N, w), w), w)
     /\ par.b = 0 => x = (IntOf(CPow(Cel(par.a, w), Cel(N, w), w), w) * par.x0) % M(w)

\* property level only (the optimiser must leave this accumulation in the loop): the consumed cell counts once
GeoTOK ==
  (phase = "exit" /\ form = "geoT" /\ N >= 1) =>
     LET g == GeoCode(N, par.a, w)
         p1 == IntOf(CPow(Cel(par.a, w), Cel(N - 1, w), w), w) IN
     x = (g[1] * par.x0 + g[2] * par.b + p1 * (Y0 % M(w))) % M(w) /\ y = 0

\* divergence is decided at entry: a loop predicted infinite is never left, one with a trip count is
Classified == phase = "exit" => N # -1

----------------------------------------------------------------------------
(* Generation: the Brainfuck text of the idiom.  Cells: 0 = c, 1 = x, 2 = y, 3 = scratch.  A counter   *)
(* the optimiser does not know comes from the input (and then x0 does too).                            *)
RECURSIVE Rep(_, _)
Rep(s, n) == IF n <= 0 THEN "" ELSE s \o Rep(s, n - 1)
Signed8(v) == IF v <= 128 THEN Rep("+", v) ELSE Rep("-", 256 - v)
CopyXtoY == "[->+>+<<]>>[-<<+>>]<<"            \* at x: y += x through the scratch cell, back at x
Body ==
  CASE form = "lin"  -> ">" \o Signed8(par.a) \o "<"
    [] form = "triA" -> ">" \o CopyXtoY \o Signed8(par.a) \o "<"
    [] form = "triB" -> ">" \o Signed8(par.a) \o CopyXtoY \o "<"
    [] form = "geo"  -> ">[->>" \o Signed8(par.a) \o "<<]>>[-<<+>>]<<" \o Signed8(par.b) \o "<"
    [] form = "geoT" -> ">[->>" \o Signed8(par.a) \o "<<]>>[-<<+>>]<<" \o ">[-<+>]<"
                        \o ">>>[-<<<+>>>>+<]>[-<+>]<<<<" \o "<"
Text ==
  (IF known THEN Rep("+", par.m) ELSE ",") \o ">" \o (IF known THEN Rep("+", par.x0) ELSE ",")
  \o (IF form = "geoT" THEN ">+++>>,<<<<" ELSE ">+++<<")    \* u always comes from the input: a cell whose
                                                                \* value is unknown but which the loop leaves alone
  \o "[" \o Body \o (IF ctr = "set" THEN "[-]" ELSE "") \o Signed8(par.inc) \o "]" \o ".>.>.>." \o (IF form = "geoT" THEN ">." ELSE "")
\* the trip count by its definition (property level): the least n with m + n*inc = 0, -1 if there is none
TripSpec(m, inc, W) ==
  LET S == {n \in 0..(M(W) - 1) : (m + n * inc) % M(W) = 0} IN
  IF S = {} THEN -1 ELSE CHOOSE n \in S : \A k \in S : n <= k
EmitCase ==
  phase = "emit" =>
    PrintT(ToJson([form |-> form, ctr |-> ctr, known |-> IF known THEN 1 ELSE 0, m |-> par.m, inc |-> par.inc,
                   a |-> par.a, b |-> par.b, x0 |-> par.x0, prog |-> Text,
                   input |-> IF form = "geoT" THEN (IF known THEN <<par.b>> ELSE <<par.m, par.x0, par.b>>)
                             ELSE IF known THEN <<>> ELSE <<par.m, par.x0>>,
                   trip |-> IF ctr = "set" THEN TripSet(par.m, par.inc) ELSE TripSpec(par.m, par.inc, w)]))
=============================================================================
