SPECIFICATION Spec
INVARIANT Report
INVARIANT NoUseAfterDrop
CHECK_DEADLOCK FALSE
