------------------------------- MODULE MCCell -------------------------------
(***************************************************************************)
(* C14, design side: the transcriptions of wrapping_pow / wrapping_inv /   *)
(* wrapping_div (Cell.tla, from src/lib.rs) meet their contracts for       *)
(* *every* operand pair at every width 1..MAXW (exhaustive), where the     *)
(* contracts are stated independently:                                     *)
(*   div   the smallest x with x*d = n, none exactly when no x exists      *)
(*         (checked against brute-force search over all x)                 *)
(*   inv   exists exactly for odd values and multiplies back to 1          *)
(*   pow   equals repeated multiplication                                  *)
(* and the closed-form contracts used for trace validation at 32/64 bit    *)
(* (DivContractSome / DivContractNone) are equivalent to the brute-force   *)
(* definition.                                                             *)
(***************************************************************************)
EXTENDS Cell, TLC, IOUtils

MaxW == atoi(IOEnv.MAXW)

VARIABLES w, n, d, phase
vars == <<w, n, d, phase>>

Vals(W) == {CFromInt(k, W) : k \in 0..(2 ^ W - 1)}
\* the operand pairs are enumerated in two steps (width, then n, then d) so that TLC's workers
\* share the work: the invariants are only meaningful - and only evaluated - on complete pairs
Init == w \in 1..MaxW /\ n = CZero(w) /\ d = CZero(w) /\ phase = "w"
PickN == phase = "w" /\ n' \in Vals(w) /\ phase' = "n" /\ UNCHANGED <<w, d>>
PickD == phase = "n" /\ d' \in Vals(w) /\ phase' = "pair" /\ UNCHANGED <<w, n>>
Next == PickN \/ PickD
Spec == Init /\ [][Next]_vars
Pair == phase = "pair"

\* brute force: the set of all x with x*d = n
Sols == {x \in Vals(w) : CMul(x, d, w) = n}
Smallest(S) == CHOOSE x \in S : \A y \in S : ~CLt(y, x)

DivMatchesBruteForceBody ==
  LET sols == Sols IN
  IF sols = {} THEN CDiv(n, d, w) = NoCell ELSE CDiv(n, d, w) = Smallest(sols)
ContractsMatchBruteForceBody ==
  LET sols == Sols
      sm   == IF sols = {} THEN NoCell ELSE Smallest(sols) IN
  /\ (sols = {}) = DivContractNone(n, d, w)
  /\ (sols # {}) = DivSolvable(n, d, w)
  /\ sols # {} => \A r \in Vals(w) : DivContractSome(r, n, d, w) = (r = sm)
InvOKBody == InvContract(n, CInv(n, w), w)

RECURSIVE PowRep(_, _, _)
PowRep(b, k, W) == IF k = 0 THEN COne(W) ELSE CMul(b, PowRep(b, k - 1, W), W)
PowOKBody == CPow(n, d, w) = PowRep(n, CToInt(d, w), w)

\* shifts and trailing zeros against plain integer arithmetic
ShiftOKBody ==
  LET a == CToInt(n, w)  k == CToInt(d, w) % (w + 2) IN
  /\ CToInt(CShr(n, k, w), w) = (IF k >= w THEN 0 ELSE a \div (2 ^ k))
  /\ CToInt(CShl(n, k, w), w) = (IF k >= w THEN 0 ELSE (a * (2 ^ k)) % (2 ^ w))
  /\ (a # 0 => a % (2 ^ CTz(n, w)) = 0 /\ (a \div (2 ^ CTz(n, w))) % 2 = 1)
  /\ (a = 0 => CTz(n, w) = w)
RingOKBody ==
  LET a == CToInt(n, w)  b == CToInt(d, w) IN
  /\ CToInt(CAdd(n, d, w), w) = (a + b) % (2 ^ w)
  /\ CToInt(CMul(n, d, w), w) = (a * b) % (2 ^ w)
  /\ CToInt(CNeg(n, w), w) = (2 ^ w - a) % (2 ^ w)
DivMatchesBruteForce == Pair => DivMatchesBruteForceBody
ContractsMatchBruteForce == Pair => ContractsMatchBruteForceBody
InvOK == Pair => InvOKBody
PowOK == Pair => PowOKBody
ShiftOK == Pair => ShiftOKBody
RingOK == Pair => RingOKBody
=============================================================================
