SPECIFICATION Spec
INVARIANT Refinement
INVARIANT Emit
CONSTRAINT SizeBound
CHECK_DEADLOCK FALSE
