------------------------------- MODULE Parser -------------------------------
(***************************************************************************)
(* C12: which source strings are programs, and where an error is reported. *)
(*                                                                         *)
(* Source text is abstracted to a sequence over five symbol classes:       *)
(*   "["  "]"   the brackets                                               *)
(*   "c"        any of the six other commands  + - < > . ,                 *)
(*   "x"        a one-byte non-command character                           *)
(*   "y"        a multi-byte (2-4 byte UTF-8) non-command character        *)
(* Positions are *character* indices (0-based), so "x" and "y" must count  *)
(* the same.  The matcher is a little state machine: one action per        *)
(* character, a stack of the positions of the open brackets.               *)
(*                                                                         *)
(*   result  <<"accept">>                                                  *)
(*           <<"notopened", k>>  k = index of the first unmatched "]"      *)
(*           <<"notclosed", k>>  k = index of the innermost unclosed "["   *)
(*                                                                         *)
(* The module is used twice: GEN = 1 enumerates every string up to MAXLEN  *)
(* (one JSON line each); GEN = 0 validates what the real front ends        *)
(* answered for concrete instances of such strings.                        *)
(***************************************************************************)
EXTENDS Integers, Sequences, TLC, Json, IOUtils

GEN    == atoi(IOEnv.GEN)
MaxLen == atoi(IOEnv.MAXLEN)
Cases  == IF GEN = 1 THEN <<>> ELSE ndJsonDeserialize(IOEnv.CASES)
Alphabet == {"[", "]", "c", "x", "y"}

VARIABLES s,       \* the abstract source text (GEN = 1: grown symbol by symbol)
          t,       \* index of the case being validated (GEN = 0)
          i,       \* next character index (0-based)
          stack,   \* character indices of the currently open brackets, innermost first
          result,  \* <<>> while scanning
          verdict
vars == <<s, t, i, stack, result, verdict>>

\* ---------------------------------------------------------------- matcher
Cur == s[i + 1]
ReadOpen  == result = <<>> /\ i < Len(s) /\ Cur = "["
             /\ stack' = <<i>> \o stack /\ i' = i + 1 /\ UNCHANGED result
ReadClose == result = <<>> /\ i < Len(s) /\ Cur = "]"
             /\ IF stack = <<>>
                THEN result' = <<"notopened", i>> /\ UNCHANGED <<stack, i>>
                ELSE stack' = Tail(stack) /\ i' = i + 1 /\ UNCHANGED result
ReadOther == result = <<>> /\ i < Len(s) /\ Cur \notin {"[", "]"}
             /\ i' = i + 1 /\ UNCHANGED <<stack, result>>
AtEnd     == result = <<>> /\ i = Len(s)
             /\ result' = (IF stack = <<>> THEN <<"accept">> ELSE <<"notclosed", Head(stack)>>)
             /\ UNCHANGED <<stack, i>>
Match == ReadOpen \/ ReadClose \/ ReadOther \/ AtEnd

\* ---------------------------------------------------------------- GEN = 1
GenInit == s = <<>> /\ t = 0 /\ i = 0 /\ stack = <<>> /\ result = <<>> /\ verdict = "gen"
Grow == \E a \in Alphabet : Len(s) < MaxLen /\ s' = Append(s, a)
                            /\ UNCHANGED <<t, i, stack, result, verdict>>
GenEmit == GEN = 1 => PrintT(ToJson([s |-> s]))

\* ---------------------------------------------------------------- GEN = 0
\* a case: [id, s, answers]; answers = sequence of <<frontend, kind, position>>
\* with kind "accept" (position 0), "notopened", "notclosed", or anything else
\* (a panic, a crash) which no behaviour of the matcher explains
TraceInit == /\ t \in 1..Len(Cases) /\ s = Cases[t].s /\ i = 0 /\ stack = <<>> /\ result = <<>>
             /\ verdict = "run"
\* (the in-place interpreter does not parse: whatever the text, it must run or return an error, never panic)
Expected(a) == IF a[1] = "inplace" THEN a[2] \in {"ran", "error-result"}
               ELSE IF result[1] = "accept" THEN a[2] = "accept"
               ELSE a[2] = result[1] /\ a[3] = result[2]
Judge ==
  /\ verdict = "run" /\ result # <<>>
  /\ LET wrong == {k \in DOMAIN Cases[t].answers : ~Expected(Cases[t].answers[k])} IN
       verdict' = IF wrong = {} THEN "accepted" ELSE "rejected"
  /\ UNCHANGED <<s, t, i, stack, result>>

Init == IF GEN = 1 THEN GenInit ELSE TraceInit
Next == IF GEN = 1 THEN Grow
        ELSE (verdict = "run" /\ Match /\ UNCHANGED <<s, t, verdict>>) \/ Judge
Spec == Init /\ [][Next]_vars

Report ==
  /\ GenEmit
  /\ (GEN = 0 /\ verdict \in {"accepted", "rejected"}) =>
       PrintT(ToJson([id |-> Cases[t].id, verdict |-> verdict, expected |-> ToString(result)]))

\* sanity of the matcher: the stack holds increasing-depth positions of "[" only
StackOK == \A k \in DOMAIN stack : stack[k] < i /\ s[stack[k] + 1] = "["
=============================================================================
