------------------------------- MODULE Cell -------------------------------
(***************************************************************************)
(* Cells of a Brainfuck tape: the ring Z/2^W.                              *)
(*                                                                         *)
(* TLC integers are 32-bit Java ints, so a cell is represented as a        *)
(* little-endian sequence of limbs.  For W <= 8 there is one limb with     *)
(* base 2^W (this also gives the tiny widths 1..3 used to make wrap-around *)
(* reachable in exhaustive model checking); for W in {16,32,64} there are  *)
(* W/8 limbs of base 256, so that a product of two limbs (< 65 536) and a  *)
(* column sum of eight such products never overflow.                       *)
(*                                                                         *)
(* The first half of the module is what the canonical machine needs        *)
(* (successor, predecessor, zero test, low byte, byte injection).  The     *)
(* second half is full ring arithmetic and the *contracts* and             *)
(* *transcriptions* of the helpers in src/lib.rs (wrapping_pow,            *)
(* wrapping_inv, wrapping_div, shifts, trailing_zeros, conversions).       *)
(***************************************************************************)
EXTENDS Integers, Sequences

NL(W)   == IF W <= 8 THEN 1 ELSE W \div 8
Base(W) == IF W <= 8 THEN 2^W ELSE 256
LimbBits(W) == IF W <= 8 THEN W ELSE 8

CZero(W) == [i \in 1..NL(W) |-> 0]
COne(W)  == [i \in 1..NL(W) |-> IF i = 1 THEN 1 % Base(W) ELSE 0]
CIsZero(v) == \A i \in DOMAIN v : v[i] = 0

RECURSIVE IncFrom(_, _, _)
IncFrom(v, i, B) ==
  IF i > Len(v) THEN v
  ELSE IF v[i] = B - 1 THEN IncFrom([v EXCEPT ![i] = 0], i + 1, B)
  ELSE [v EXCEPT ![i] = v[i] + 1]

RECURSIVE DecFrom(_, _, _)
DecFrom(v, i, B) ==
  IF i > Len(v) THEN v
  ELSE IF v[i] = 0 THEN DecFrom([v EXCEPT ![i] = B - 1], i + 1, B)
  ELSE [v EXCEPT ![i] = v[i] - 1]

CInc(v, W) == IncFrom(v, 1, Base(W))     \* v + 1  (mod 2^W)
CDec(v, W) == DecFrom(v, 1, Base(W))     \* v - 1  (mod 2^W)

\* '.' emits the low 8 bits of the cell
CByte(v) == v[1] % 256
\* ',' stores the input byte, zero-extended (truncated for the tiny widths)
CFromByte(b, W) == [i \in 1..NL(W) |-> IF i = 1 THEN b % Base(W) ELSE 0]

-----------------------------------------------------------------------------
(* Conversion from/to TLC integers; only meaningful where the value fits.   *)
RECURSIVE ToIntFrom(_, _, _)
ToIntFrom(v, i, B) == IF i > Len(v) THEN 0 ELSE v[i] + B * ToIntFrom(v, i + 1, B)
CToInt(v, W) == ToIntFrom(v, 1, Base(W))            \* W <= 16 (or small values)
CFromInt(n, W) ==                                   \* 0 <= n < 2^31
  [i \in 1..NL(W) |-> (n \div (Base(W) ^ (i - 1))) % Base(W)]

-----------------------------------------------------------------------------
(* Ring arithmetic on limb sequences.                                       *)
RECURSIVE AddFrom(_, _, _, _, _)
AddFrom(a, b, i, carry, B) ==
  IF i > Len(a) THEN <<>>
  ELSE LET s == a[i] + b[i] + carry
       IN  <<s % B>> \o AddFrom(a, b, i + 1, s \div B, B)
CAdd(a, b, W) == AddFrom(a, b, 1, 0, Base(W))

CNot(a, W) == [i \in DOMAIN a |-> Base(W) - 1 - a[i]]
CNeg(a, W) == CInc(CNot(a, W), W)
CSub(a, b, W) == CAdd(a, CNeg(b, W), W)

\* column k (1-based) of the schoolbook product, truncated to NL limbs
RECURSIVE ColSum(_, _, _, _)
ColSum(a, b, k, i) == IF i > k THEN 0 ELSE a[i] * b[k + 1 - i] + ColSum(a, b, k, i + 1)
RECURSIVE MulFrom(_, _, _, _, _)
MulFrom(a, b, k, carry, B) ==
  IF k > Len(a) THEN <<>>
  ELSE LET s == ColSum(a, b, k, 1) + carry
       IN  <<s % B>> \o MulFrom(a, b, k + 1, s \div B, B)
CMul(a, b, W) == MulFrom(a, b, 1, 0, Base(W))

CIsOdd(a) == a[1] % 2 = 1

\* bit i (0-based) of a
CBit(a, i, W) == (a[(i \div LimbBits(W)) + 1] \div (2 ^ (i % LimbBits(W)))) % 2
CFromBits(f, W) ==    \* f : 0..W-1 -> {0,1}
  [l \in 1..NL(W) |->
     LET lb == LimbBits(W)
         RECURSIVE S(_)
         S(j) == IF j = lb THEN 0 ELSE f[(l - 1) * lb + j] * (2 ^ j) + S(j + 1)
     IN S(0)]
\* logical shifts; shifting by >= W gives 0 (lib.rs: checked_shr(..).unwrap_or(0))
CShr(a, n, W) == CFromBits([i \in 0..W-1 |-> IF i + n < W THEN CBit(a, i + n, W) ELSE 0], W)
CShl(a, n, W) == CFromBits([i \in 0..W-1 |-> IF i >= n THEN CBit(a, i - n, W) ELSE 0], W)
CAnd(a, b, W) == CFromBits([i \in 0..W-1 |-> CBit(a, i, W) * CBit(b, i, W)], W)
\* number of trailing zero bits; W for the value 0
RECURSIVE TzFrom(_, _, _)
TzFrom(a, i, W) == IF i = W THEN W ELSE IF CBit(a, i, W) = 1 THEN i ELSE TzFrom(a, i + 1, W)
CTz(a, W) == TzFrom(a, 0, W)

-----------------------------------------------------------------------------
(* Transcriptions of the provided methods of trait CellType (src/lib.rs).    *)
RECURSIVE PowLoop(_, _, _, _)
PowLoop(base, exp, result, W) ==          \* lib.rs wrapping_pow: square and multiply
  IF CIsZero(exp) THEN result
  ELSE PowLoop(CMul(base, base, W), CShr(exp, 1, W),
               IF CIsOdd(exp) THEN CMul(result, base, W) ELSE result, W)
CPow(b, e, W) == PowLoop(b, e, COne(W), W)

NoCell == <<>>                             \* Option::None
CNegOne(W) == CNeg(COne(W), W)
CInv(a, W) ==                              \* lib.rs wrapping_inv
  IF CIsOdd(a)
  THEN CPow(a, CAdd(CShl(COne(W), W - 1, W), CNegOne(W), W), W)
  ELSE NoCell
CDiv(n, d, W) ==                           \* lib.rs wrapping_div
  LET shift == CTz(d, W) IN
  IF CIsZero(n) THEN CZero(W)
  ELSE IF shift > CTz(n, W) THEN NoCell
  ELSE LET dd  == CShr(d, shift, W)
           tot == CShl(COne(W), W - shift - 1, W)
           inv == CPow(dd, CAdd(tot, CNegOne(W), W), W)
           res == CMul(inv, CShr(n, shift, W), W)
       IN  CAnd(res, CAdd(CShl(COne(W), W - shift, W), CNegOne(W), W), W)

-----------------------------------------------------------------------------
(* Contracts (what property C14 states), independent of the transcriptions. *)
\* lexicographic "a < b" on little-endian limbs
RECURSIVE LtFrom(_, _, _)
LtFrom(a, b, i) == IF i = 0 THEN FALSE
                   ELSE IF a[i] # b[i] THEN a[i] < b[i] ELSE LtFrom(a, b, i - 1)
CLt(a, b) == LtFrom(a, b, Len(a))

\* r is a solution of r*d = n
IsQuot(r, n, d, W) == CMul(r, d, W) = n
\* r = Some(smallest x with x*d = n): the solutions of x*d = n, when one
\* exists, are x0 + k*2^(W-tz(d)); the smallest is the one below 2^(W-tz(d)).
DivContractSome(r, n, d, W) ==
  /\ IsQuot(r, n, d, W)
  /\ LET s == CTz(d, W) IN s = 0 \/ (s <= W /\ \A i \in (W - s)..(W - 1) : CBit(r, i, W) = 0)
\* None exactly when no solution exists: x*d = n is solvable iff tz(d) <= tz(n) or n = 0
DivContractNone(n, d, W) == ~CIsZero(n) /\ CTz(d, W) > CTz(n, W)
DivSolvable(n, d, W) == CIsZero(n) \/ CTz(d, W) <= CTz(n, W)
InvContract(a, r, W) == IF CIsOdd(a) THEN r # NoCell /\ CMul(a, r, W) = COne(W) ELSE r = NoCell
=============================================================================
