SPECIFICATION Spec
INVARIANT TripOK
INVARIANT UnknownOnlyWhenEvenStep
INVARIANT LinOK
INVARIANT TriOK
INVARIANT GeoOK
INVARIANT GeoTOK
INVARIANT Classified
CHECK_DEADLOCK FALSE
