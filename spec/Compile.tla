------------------------------- MODULE Compile -------------------------------
(***************************************************************************)
(* C13: compilation is a function of (source, width, level) and executors  *)
(* are immutable under execution.                                          *)
(*                                                                         *)
(* The model is an "artifact store": art[key] is the one rendering that    *)
(* the key (kind of artifact, source, width, level) may ever have, fixed   *)
(* by the first observation; an executor's first execution result fixes    *)
(* every later one.  A trace is a history of observations made in several  *)
(* processes (different hash seeds), in shuffled orders, with unrelated    *)
(* compilations in between:                                                *)
(*   [proc, ev |-> "artifact", key, digest]   printed IR / bytecode /      *)
(*                                            machine code, or the event   *)
(*                                            log of a first execution     *)
(*   [proc, ev |-> "execute", exe, nth, digest]  the nth execution of      *)
(*                                            executor exe (per process)   *)
(*   [proc, ev |-> "failed", key, digest]     create panicked / crashed    *)
(*   [ev |-> "size", key |-> family, nth |-> k, size]  the size of the     *)
(*                                            printed artifact for member  *)
(*                                            k of a scaling family whose  *)
(*                                            source length is linear in k *)
(*   [ev |-> "time", key |-> family, nth |-> k, size]  the compile time of  *)
(*                                            member k in ms (floored at   *)
(*                                            100 ms by the driver)        *)
(* Complexity clause ("no super-polynomial blow-up"): within a family the  *)
(* sizes of consecutive members k, k+1 (k >= 8) must not *all* grow by a   *)
(* factor of 1.7 or more - a polynomial of degree <= 4 has ratios below    *)
(* (1 + 1/8)^4 = 1.6 there, an exponential does not.  Compile times carry a *)
(* fixed overhead and noise, so for them only the tail counts: the three   *)
(* largest consecutive pairs all grow by 1.7 or more and the largest       *)
(* member takes at least a second.                                         *)
(***************************************************************************)
EXTENDS Integers, Sequences, TLC, Json, IOUtils

Cases == ndJsonDeserialize(IOEnv.CASES)
VARIABLES t, l, art, first, sizes, timed, verdict, why
vars == <<t, l, art, first, sizes, timed, verdict, why>>
Ev == Cases[t].events

Init == /\ t \in 1..Len(Cases) /\ l = 1 /\ art = <<>> /\ first = <<>> /\ sizes = <<>> /\ timed = {}
        /\ verdict = "run" /\ why = <<>>

Observe ==
  /\ verdict = "run" /\ l <= Len(Ev) /\ UNCHANGED t
  /\ LET e == Ev[l] IN
     CASE e.ev = "artifact" ->
            IF e.key \in DOMAIN art
            THEN IF art[e.key].digest = e.digest
                 THEN l' = l + 1 /\ UNCHANGED <<art, first, sizes, timed, verdict, why>>
                 ELSE /\ verdict' = "rejected" /\ UNCHANGED <<art, first, sizes, timed, l>>
                      /\ why' = <<"same-key-different-artifact", e.key, "process", art[e.key].proc, art[e.key].digest,
                                  "process", e.proc, e.digest>>
            ELSE /\ art' = (e.key :> [digest |-> e.digest, proc |-> e.proc]) @@ art
                 /\ l' = l + 1 /\ UNCHANGED <<first, sizes, timed, verdict, why>>
       [] e.ev = "execute" ->
            LET k == <<e.proc, e.exe>> IN
            IF k \in DOMAIN first
            THEN IF first[k] = e.digest
                 THEN l' = l + 1 /\ UNCHANGED <<art, first, sizes, timed, verdict, why>>
                 ELSE /\ verdict' = "rejected" /\ UNCHANGED <<art, first, sizes, timed, l>>
                      /\ why' = <<"executor-changed-by-execution", e.exe, e.nth, first[k], e.digest>>
            ELSE /\ first' = (k :> e.digest) @@ first
                 /\ l' = l + 1 /\ UNCHANGED <<art, sizes, timed, verdict, why>>
       [] e.ev \in {"size", "time"} ->
            /\ sizes' = (<<e.key, e.nth>> :> e.size) @@ sizes
            /\ timed' = IF e.ev = "time" THEN timed \cup {e.key} ELSE timed
            /\ l' = l + 1 /\ UNCHANGED <<art, first, verdict, why>>
       [] OTHER ->
            /\ verdict' = "rejected" /\ why' = <<"compilation-not-total", e.key, e.digest>>
            /\ UNCHANGED <<art, first, sizes, timed, l>>

\* families whose every consecutive pair of members grows by a factor >= 1.7
Families == {k[1] : k \in DOMAIN sizes}
Members(f) == {k[2] : k \in {x \in DOMAIN sizes : x[1] = f}}
Max(S) == CHOOSE x \in S : \A y \in S : y <= x
Exponential(f) ==
  LET ms == Members(f)  pairs == {m \in ms : m + 1 \in ms} IN
  /\ pairs # {}
  /\ IF f \in timed
     THEN LET top == Max(ms) IN
          /\ {top - 3, top - 2, top - 1} \subseteq pairs
          /\ sizes[<<f, top>>] >= 1000
          /\ \A m \in {top - 3, top - 2, top - 1} : sizes[<<f, m + 1>>] * 10 >= sizes[<<f, m>>] * 17
     ELSE \A m \in pairs : sizes[<<f, m + 1>>] * 10 >= sizes[<<f, m>>] * 17
Done == /\ verdict = "run" /\ l = Len(Ev) + 1
        /\ IF \E f \in Families : Exponential(f)
           THEN LET f == CHOOSE f \in Families : Exponential(f) IN
                verdict' = "rejected"
                /\ why' = <<"super-polynomial-growth-of-the-artifact", f,
                            [m \in Members(f) |-> sizes[<<f, m>>]]>>
           ELSE verdict' = "accepted" /\ why' = <<"deterministic", l - 1>>
        /\ UNCHANGED <<t, l, art, first, sizes, timed>>

Next == Observe \/ Done
Spec == Init /\ [][Next]_vars

\* the store never changes an entry
Immutable == [][\A k \in DOMAIN art : k \in DOMAIN art' /\ art'[k] = art[k]]_vars

Report == verdict # "run" =>
  PrintT(ToJson([id |-> Cases[t].id, verdict |-> verdict, why |-> ToString(why), pos |-> l]))
=============================================================================
