----------------------------- MODULE TapeArith -----------------------------
(***************************************************************************)
(* The index arithmetic of `Memory::make_accessible' (src/runtime.rs) for  *)
(* ALL integers: no buffer contents, only size / offset / the ghost base.  *)
(* Checked with Apalache as an inductive step: from any state satisfying   *)
(* IndInv, one call (mov or make_accessible with arbitrary integer         *)
(* arguments) re-establishes IndInv, where IndInv contains the clauses of  *)
(* C09 that are pure arithmetic:                                           *)
(*   - the logical pointer (base + offset) is what the moves made it;      *)
(*   - the old window stays inside the new one (contents are kept: the     *)
(*     copy goes to new_buffer + added_below);                             *)
(*   - the last requested range is inside the buffer.                      *)
(***************************************************************************)
EXTENDS Integers

VARIABLES
  \* @type: Int;
  size,
  \* @type: Int;
  offset,
  \* @type: Int;
  base,
  \* @type: Int;
  lptr,      \* ghost: logical pointer according to the moves
  \* @type: Int;
  oldLo,     \* ghost: logical bounds of the buffer before the last call
  \* @type: Int;
  oldHi,
  \* @type: Int;
  reqLo,     \* ghost: logical bounds of the last requested range (reqLo = reqHi: none)
  \* @type: Int;
  reqHi

MaxI(a, b) == IF a > b THEN a ELSE b
MinI(a, b) == IF a < b THEN a ELSE b

NeededBelow(s) == IF offset + s < 0 THEN -(offset + s) ELSE 0
NeededAbove(e) == IF offset + e > size THEN offset + e - size ELSE 0
Grow(s, e) == MaxI(size \div 2, NeededBelow(s) + NeededAbove(e))
AddedBelow(s, e) ==
  IF NeededBelow(s) = 0 THEN 0
  ELSE IF NeededAbove(e) = 0 THEN Grow(s, e)
  ELSE MinI(MaxI(NeededBelow(s), Grow(s, e) \div 2), Grow(s, e) - NeededAbove(e))

Mov(d) ==
  /\ offset' = offset + d /\ lptr' = lptr + d
  /\ oldLo' = base /\ oldHi' = base + size
  /\ UNCHANGED <<size, base, reqLo, reqHi>>

MakeAcc(s, e) ==
  /\ oldLo' = base /\ oldHi' = base + size
  /\ reqLo' = lptr + s /\ reqHi' = (IF s < e THEN lptr + e ELSE lptr + s)
  /\ lptr' = lptr
  /\ IF NeededBelow(s) = 0 /\ NeededAbove(e) = 0
     THEN UNCHANGED <<size, offset, base>>
     ELSE /\ size' = size + Grow(s, e)
          /\ offset' = offset + AddedBelow(s, e)
          /\ base' = base - AddedBelow(s, e)

Next == (\E d \in Int : Mov(d)) \/ (\E s \in Int, e \in Int : MakeAcc(s, e))

Init == /\ size = 0 /\ offset = 0 /\ base = 0 /\ lptr = 0 /\ oldLo = 0 /\ oldHi = 0 /\ reqLo = 0 /\ reqHi = 0

\* the inductive invariant
IndInv ==
  /\ size >= 0
  /\ base + offset = lptr                       \* growth preserves the logical pointer
  /\ base <= oldLo /\ oldHi <= base + size      \* the old window is inside the new one
  /\ reqLo < reqHi => (base <= reqLo /\ reqHi <= base + size)   \* a requested range is accessible afterwards

\* any state satisfying the invariant (for the inductive step)
IndInit ==
  /\ size \in Int /\ offset \in Int /\ base \in Int /\ lptr \in Int
  /\ oldLo \in Int /\ oldHi \in Int /\ reqLo \in Int /\ reqHi \in Int
  /\ IndInv
=============================================================================
