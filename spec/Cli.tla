--------------------------------- MODULE Cli ---------------------------------
(***************************************************************************)
(* C16: what the hpbf command line must run for a given argument vector.   *)
(*                                                                         *)
(* The argument loop is a fold over argv with two one-token look-behinds   *)
(* (`-f' takes the next token as a file name, `--limit' the next token as  *)
(* a number, whatever they look like).  One action per token.  Tokens are  *)
(* abstract:                                                               *)
(*   options   -i8 -i16 -i32 -i64  -O0..-O5  --inplace --ir-int --bc-int   *)
(*             --base-jit --print-ir --print-bc --print-jit-bc             *)
(*             --print-jit-mc  --limit --static -f -h                      *)
(*   "num:<n>" a decimal number, "junk" something that is not a number     *)
(*   "file:<name>" an existing file, "missing" a file that does not exist  *)
(*   "code:<name>" a bare code fragment                                    *)
(* `Frag' gives, per file/code name, whether the text is balanced.         *)
(*                                                                         *)
(* Result (the statement of C16):                                          *)
(*   - the program is the concatenation, in order, of the code of all -f   *)
(*     files and bare arguments;                                           *)
(*   - width / backend / level / limit / static as selected (last wins;    *)
(*     defaults 8 bit, baseline JIT, level 2, no limit, checked);          *)
(*   - exit 1 + diagnostic iff a file could not be read, or a parsing      *)
(*     backend / print option got unbalanced brackets; otherwise exit 0;   *)
(*   - print options and -h execute nothing and do not touch stdin;        *)
(*     nothing is executed after a file error.                             *)
(* GEN = 1: every argv up to MAXLEN over `Tokens' is an initial state; the  *)
(* fold runs and the expected result is printed.  GEN = 0: the same fold   *)
(* runs on recorded argument vectors and judges what was observed.         *)
(***************************************************************************)
EXTENDS Integers, Sequences, TLC, Json, IOUtils

GEN    == atoi(IOEnv.GEN)
MaxLen == atoi(IOEnv.MAXLEN)
Cases  == IF GEN = 1 THEN <<>> ELSE ndJsonDeserialize(IOEnv.CASES)
\* the token alphabet of the generator, and which fragments are balanced
\* (three lines: the token alphabet; per token, whether its spelling taken as
\* code / the content of the file it names is bracket-balanced; per token, whether
\* it names an existing file and which number it spells)
Tokens   == ndJsonDeserialize(IOEnv.TOKENS)[1]
Balanced == ndJsonDeserialize(IOEnv.TOKENS)[2]      \* token -> [text |-> 0/1, file |-> 0/1]

VARIABLES argv, t, i, bits, kind, opt, limit, safe, code, hasError, help, nextIsFile, nextIsLimit, verdict
vars == <<argv, t, i, bits, kind, opt, limit, safe, code, hasError, help, nextIsFile, nextIsLimit, verdict>>
cfgvars == <<bits, kind, opt, limit, safe, code, hasError, help, nextIsFile, nextIsLimit>>

Defaults ==
  /\ bits = 8 /\ kind = "base-jit" /\ opt = 2 /\ limit = -1 /\ safe = TRUE /\ code = <<>>
  /\ hasError = FALSE /\ help = FALSE /\ nextIsFile = FALSE /\ nextIsLimit = FALSE

Tok == argv[i]

\* classification of a token by its spelling
Kind(tok) ==
  CASE tok \in {"-i8", "-i16", "-i32", "-i64"} -> "bits"
    [] tok \in {"-O0", "-O1", "-O2", "-O3", "-O4", "-O5"} -> "opt"
    [] tok \in {"--inplace", "--ir-int", "--bc-int", "--base-jit", "--print-ir", "--print-bc",
                "--print-jit-bc", "--print-jit-mc"} -> "kind"
    [] tok = "--limit" -> "limit"
    [] tok = "--static" -> "static"
    [] tok \in {"-f", "--file"} -> "file"
    [] tok \in {"-h", "--help"} -> "help"
    [] OTHER -> "code"
BitsOf(tok) == CASE tok = "-i8" -> 8 [] tok = "-i16" -> 16 [] tok = "-i32" -> 32 [] OTHER -> 64
OptOf(tok) == CASE tok = "-O0" -> 0 [] tok = "-O1" -> 1 [] tok = "-O2" -> 2 [] tok = "-O3" -> 3
                [] tok = "-O4" -> 4 [] OTHER -> 5
KindOf(tok) == CASE tok = "--inplace" -> "inplace" [] tok = "--ir-int" -> "ir-int" [] tok = "--bc-int" -> "bc-int"
                 [] tok = "--base-jit" -> "base-jit" [] tok = "--print-ir" -> "print-ir"
                 [] tok = "--print-bc" -> "print-bc" [] tok = "--print-jit-bc" -> "print-jit-bc"
                 [] OTHER -> "print-jit-mc"
\* token payloads come from the case: meta[tok] = [file |-> 0/1 exists, num |-> n or -1]
Meta(tok) == ndJsonDeserialize(IOEnv.TOKENS)[3][tok]

\* ---- one action per token ------------------------------------------------
Advance == i' = i + 1 /\ UNCHANGED <<argv, t, verdict>>
ReadFileName ==
  /\ i <= Len(argv) /\ nextIsFile /\ Advance
  /\ nextIsFile' = FALSE
  /\ IF Meta(Tok).file = 1
     THEN code' = Append(code, <<"file", Tok>>) /\ UNCHANGED hasError
     ELSE hasError' = TRUE /\ UNCHANGED code
  /\ UNCHANGED <<bits, kind, opt, limit, safe, help, nextIsLimit>>
ReadLimitValue ==
  /\ i <= Len(argv) /\ ~nextIsFile /\ nextIsLimit /\ Advance
  /\ nextIsLimit' = FALSE
  /\ limit' = (IF Meta(Tok).num >= 0 THEN Meta(Tok).num ELSE limit)   \* an invalid limit is ignored
  /\ UNCHANGED <<bits, kind, opt, safe, code, hasError, help, nextIsFile>>
ReadOption ==
  /\ i <= Len(argv) /\ ~nextIsFile /\ ~nextIsLimit /\ Advance
  /\ LET k == Kind(Tok) IN
     /\ bits' = (IF k = "bits" THEN BitsOf(Tok) ELSE bits)
     /\ opt'  = (IF k = "opt" THEN OptOf(Tok) ELSE opt)
     /\ kind' = (IF k = "kind" THEN KindOf(Tok) ELSE kind)
     /\ safe' = (IF k = "static" THEN FALSE ELSE safe)
     /\ help' = (help \/ k = "help")
     /\ nextIsFile'  = (k = "file")
     /\ nextIsLimit' = (k = "limit")
     /\ code' = (IF k = "code" THEN Append(code, <<"text", Tok>>) ELSE code)
     /\ UNCHANGED <<limit, hasError>>
Read == ReadFileName \/ ReadLimitValue \/ ReadOption

\* ---- the expected outcome once argv is consumed ---------------------------
IsPrint == kind \in {"print-ir", "print-bc", "print-jit-bc", "print-jit-mc"}
Parses  == kind # "inplace"                       \* everything but the in-place interpreter parses first
AllBalanced == \A k \in DOMAIN code :
                 IF code[k][1] = "file" THEN Balanced[code[k][2]].file = 1 ELSE Balanced[code[k][2]].text = 1
\* the concatenation of balanced fragments is balanced; with an unbalanced fragment
\* the harness only uses fragments whose concatenation stays unbalanced
ParseError == Parses /\ ~AllBalanced
Executes == ~help /\ ~hasError /\ ~IsPrint /\ ~ParseError
Prints   == ~help /\ ~hasError /\ IsPrint /\ ~ParseError
ExitCode == IF hasError \/ (~help /\ ParseError) THEN 1 ELSE 0
MayTouchStdin == Executes
Expected == [bits |-> bits, kind |-> kind, opt |-> opt, limit |-> limit, safe |-> IF safe THEN 1 ELSE 0,
             code |-> code, exit |-> ExitCode, executes |-> IF Executes THEN 1 ELSE 0,
             prints |-> IF Prints THEN 1 ELSE 0, help |-> IF help THEN 1 ELSE 0,
             diagnostic |-> IF hasError \/ (~help /\ ParseError) THEN 1 ELSE 0,
             defined |-> IF kind = "inplace" /\ ~AllBalanced THEN 0 ELSE 1]

\* ---- GEN = 1 ----------------------------------------------------------------
TokenSet == {Tokens[k] : k \in DOMAIN Tokens}
GenInit == /\ argv \in UNION {[1..n -> TokenSet] : n \in 0..MaxLen}
           /\ t = 0 /\ i = 1 /\ Defaults /\ verdict = "gen"
GenEmit == (GEN = 1 /\ i = Len(argv) + 1) => PrintT(ToJson([argv |-> argv, expected |-> Expected]))

\* ---- GEN = 0: validate observed runs ---------------------------------------
\* a case: [id, argv, obs |-> [exit, stderr (0/1 non-empty), stdin (0/1 touched), printok (0/1/-1)]]
TraceInit == t \in 1..Len(Cases) /\ argv = Cases[t].argv /\ i = 1 /\ Defaults /\ verdict = "run"
Judge ==
  /\ verdict = "run" /\ i = Len(argv) + 1
  /\ LET o == Cases[t].obs  e == Expected IN
     verdict' =
       IF e.defined = 0 THEN "skipped"
       ELSE IF o.exit # e.exit THEN "rejected:exit-status"
       ELSE IF e.diagnostic = 1 /\ o.stderr = 0 THEN "rejected:no-diagnostic"
       ELSE IF e.executes = 0 /\ o.stdin = 1 THEN "rejected:stdin-consumed-without-executing"
       ELSE IF e.prints = 1 /\ o.printok = 0 THEN "rejected:print-differs-from-selected-configuration"
       ELSE IF e.executes = 0 /\ e.prints = 0 /\ e.help = 0 /\ o.stdout = 1 THEN "rejected:output-although-nothing-runs"
       ELSE "accepted"
  /\ UNCHANGED <<argv, t, i, cfgvars>>

Init == IF GEN = 1 THEN GenInit ELSE TraceInit
Next == IF GEN = 1 THEN Read ELSE ((verdict = "run" /\ Read) \/ Judge)
Spec == Init /\ [][Next]_vars

Report ==
  /\ GenEmit
  /\ (GEN = 0 /\ verdict \notin {"run", "gen"}) =>
       PrintT(ToJson([id |-> Cases[t].id, verdict |-> verdict, expected |-> Expected]))
=============================================================================
