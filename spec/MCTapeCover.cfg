SPECIFICATION Spec
INVARIANT Refinement
INVARIANT Emit
CONSTRAINT SizeBound
VIEW View
CHECK_DEADLOCK FALSE
