SPECIFICATION Spec
INVARIANT ContentsAgree
INVARIANT IterAgrees
INVARIANT NoBadAccess
INVARIANT AtMostOnce
INVARIANT NoDropWhileReachable
INVARIANT ExactlyOnce
VIEW View
CHECK_DEADLOCK FALSE
