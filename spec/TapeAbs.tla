------------------------------ MODULE TapeAbs ------------------------------
(***************************************************************************)
(* Property level of the tape (C09, used by C06/C10/C17): an unbounded,    *)
(* zero-initialised array of cells with a movable pointer.                 *)
(*                                                                         *)
(*   cells   logical index -> value, only non-zero entries are stored      *)
(*   ptr     logical index of the current cell                             *)
(*   accLo, accHi   the hull [accLo, accHi) of all ranges whose            *)
(*           accessibility has been requested so far (empty: accLo=accHi). *)
(*           The statement only promises that a *requested* range is       *)
(*           reported accessible afterwards; an implementation may report  *)
(*           more.                                                         *)
(*   ret     what the last call returned                                   *)
(*                                                                         *)
(* Values are opaque tokens 0..MaxVal (0 is the zero cell); the harness    *)
(* maps tokens to concrete cell values of each width.                      *)
(***************************************************************************)
EXTENDS Integers, Sequences, TLC

VARIABLES cells, ptr, accLo, accHi, ret
abs == <<cells, ptr, accLo, accHi, ret>>

AbsInit == cells = <<>> /\ ptr = 0 /\ accLo = 0 /\ accHi = 0 /\ ret = <<"init">>

ACell(p) == IF p \in DOMAIN cells THEN cells[p] ELSE 0
APut(p, v) ==
  IF v = 0
  THEN IF p \in DOMAIN cells THEN [q \in DOMAIN cells \ {p} |-> cells[q]] ELSE cells
  ELSE IF p \in DOMAIN cells THEN [cells EXCEPT ![p] = v] ELSE (p :> v) @@ cells

Requested(p) == accLo <= p /\ p < accHi

AbsMov(d)      == ptr' = ptr + d /\ ret' = <<"mov">> /\ UNCHANGED <<cells, accLo, accHi>>
AbsRead(o)     == ret' = <<"read", ACell(ptr + o)>> /\ UNCHANGED <<cells, ptr, accLo, accHi>>
AbsWrite(o, v) == cells' = APut(ptr + o, v) /\ ret' = <<"write">> /\ UNCHANGED <<ptr, accLo, accHi>>
AbsMakeAcc(s, e) ==
  /\ IF s < e
     THEN IF accLo = accHi
          THEN accLo' = ptr + s /\ accHi' = ptr + e
          ELSE accLo' = (IF ptr + s < accLo THEN ptr + s ELSE accLo)
               /\ accHi' = (IF ptr + e > accHi THEN ptr + e ELSE accHi)
     ELSE UNCHANGED <<accLo, accHi>>
  /\ ret' = <<"acc">> /\ UNCHANGED <<cells, ptr>>
\* check may answer TRUE anywhere, but must answer TRUE inside the requested hull
AbsCheck(o, answer) ==
  /\ (Requested(ptr + o) => answer)
  /\ ret' = <<"check", answer>> /\ UNCHANGED <<cells, ptr, accLo, accHi>>
=============================================================================
