SPECIFICATION Spec
INVARIANT Balanced
INVARIANT Emit
CHECK_DEADLOCK FALSE
