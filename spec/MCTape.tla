------------------------------- MODULE MCTape -------------------------------
(***************************************************************************)
(* Design check for C09 (and the allocation-failure clause of C17): the    *)
(* implementation-level tape refines the property-level tape under every   *)
(* call history within small constants.  TLC explores the state graph of   *)
(* the product; the invariants are evaluated in every state, the action    *)
(* properties on every transition.                                         *)
(*                                                                         *)
(* With GEN = 1 the module also carries the call history and prints it     *)
(* when it reaches length Depth: these histories are replayed on the real  *)
(* `Memory<C>` and validated by TapeTrace.                                 *)
(***************************************************************************)
EXTENDS TapeAbs, TapeImpl, Json, IOUtils

R       == atoi(IOEnv.R)        \* offsets, moves and range bounds in -R..R
MaxVal  == atoi(IOEnv.MAXVAL)   \* value tokens 0..MaxVal
Depth   == atoi(IOEnv.DEPTH)    \* calls per history
MaxSize == atoi(IOEnv.MAXSIZE)  \* state constraint on the buffer size
GEN     == atoi(IOEnv.GEN)      \* 1: carry and print the call history
FAIL    == atoi(IOEnv.FAIL)     \* 1: allocation requests may be refused

VARIABLES n, hist
vars == <<abs, impl, n, hist>>

Off == (-R)..R

Init == AbsInit /\ ImplInit /\ n = 0 /\ hist = <<>>

Log(call) == n' = n + 1 /\ hist' = IF GEN = 1 THEN Append(hist, call) ELSE hist

Live == ~aborted /\ n < Depth
AllocChoices == IF FAIL = 1 THEN {TRUE, FALSE} ELSE {TRUE}

Mov == \E d \in Off : Live /\ AbsMov(d) /\ ImplMov(d) /\ Log(<<"mov", d>>)
Read == \E o \in Off : Live /\ AbsRead(o) /\ UNCHANGED impl /\ Log(<<"read", o, ImplRead(o)>>)
Check == \E o \in Off : Live /\ AbsCheck(o, ImplCheck(o)) /\ UNCHANGED impl
                       /\ Log(<<"check", o, IF ImplCheck(o) THEN 1 ELSE 0>>)
Write == \E o \in Off, v \in 0..MaxVal, ok \in AllocChoices :
           /\ Live /\ ImplWrite(o, v, ok)
           /\ IF aborted' THEN UNCHANGED abs ELSE AbsWrite(o, v)
           /\ Log(<<"write", o, v>>)
MakeAcc == \E s \in Off, e \in Off, ok \in AllocChoices :
           /\ Live /\ ImplMakeAcc(s, e, ok)
           /\ IF aborted' THEN UNCHANGED abs ELSE AbsMakeAcc(s, e)
           /\ Log(<<"acc", s, e>>)

Next == Mov \/ Read \/ Check \/ Write \/ MakeAcc
Spec == Init /\ [][Next]_vars

-----------------------------------------------------------------------------
(* Refinement mapping and the clauses of C09.                               *)
Logical(i) == base + i - 1            \* logical index of buf[i]

\* the buffer is a window of the abstract array, and nothing is outside it
ContentsAgree ==
  /\ Len(buf) = size
  /\ \A i \in 1..size : buf[i] = ACell(Logical(i))
  /\ \A p \in DOMAIN cells : base <= p /\ p < base + size
PointerAgrees == ptr = base + offset
\* every read returns the last value written to that logical cell (0 if never)
ReadsAgree == \A o \in Off : ImplRead(o) = ACell(ptr + o)
\* a requested range is reported accessible afterwards - and for ever
RequestedAccessible == \A p \in accLo..(accHi - 1) : base <= p /\ p < base + size
Refinement == ContentsAgree /\ PointerAgrees /\ ReadsAgree /\ RequestedAccessible

\* reads, bounds queries and moves never allocate (and never change the buffer)
NoAllocOnQuery ==
  [][ret' \in {<<"mov">>} \/ ret'[1] \in {"read", "check"} => allocs' = allocs /\ size' = size /\ buf' = buf]_vars
\* growth in either direction preserves contents and the logical pointer
GrowthPreserves ==
  [][size' # size => /\ ptr' = ptr
                      /\ \A p \in (base..(base + size - 1)) : \* old window
                           (ret'[1] # "write") => ACell(p)' = ACell(p)]_vars
\* C17 (model side): after a refused allocation nothing else happens
AbortIsFinal == [][aborted => FALSE]_vars

SizeBound == size <= MaxSize

\* GEN: one line per complete history
Emit == (GEN = 1 /\ (n = Depth \/ aborted)) => PrintT(ToJson([hist |-> hist, aborted |-> aborted]))

\* hide the history from the fingerprint when only checking
View == <<abs, impl, n>>
=============================================================================
