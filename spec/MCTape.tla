------------------------------- MODULE MCTape -------------------------------
(***************************************************************************)
(* Design check for C09 (and the allocation-failure clause of C17): the    *)
(* implementation-level tape refines the property-level tape under every   *)
(* call history within small constants.  TLC explores the state graph of   *)
(* the product; the invariants are evaluated in every state, the action    *)
(* properties on every transition.                                         *)
(*                                                                         *)
(* With GEN = 1 the module also carries the call history and prints it     *)
(* when it reaches length Depth: these histories are replayed on the real  *)
(* `Memory<C>` and validated by TapeTrace.                                 *)
(***************************************************************************)
EXTENDS TapeAbs, TapeImpl, Json, IOUtils

R       == atoi(IOEnv.R)        \* offsets, moves and range bounds in -R..R
MaxVal  == atoi(IOEnv.MAXVAL)   \* value tokens 0..MaxVal
Depth   == atoi(IOEnv.DEPTH)    \* calls per history
MaxSize == atoi(IOEnv.MAXSIZE)  \* state constraint on the buffer size
GEN     == atoi(IOEnv.GEN)      \* 1: carry and print the call history
FAIL    == atoi(IOEnv.FAIL)     \* 1: allocation requests may be refused

VARIABLES n, hist, cls
vars == <<abs, impl, n, hist, cls>>

Off == (-R)..R

Init == AbsInit /\ ImplInit /\ n = 0 /\ hist = <<>> /\ cls = 0

(* Transition classes (for the transition cover, GEN = 2): which call, where its operand lies   *)
(* relative to the buffer, and - when the call grows the tape - which of the placement cases of *)
(* make_accessible applies.  cls = 100 * call + 10 * placement + position.                      *)
Position(o) ==                      \* of offset o relative to the buffer
  IF size = 0 THEN 0
  ELSE IF offset + o < 0 THEN (IF offset + o = -1 THEN 1 ELSE 2)            \* just below / far below
  ELSE IF offset + o >= size THEN (IF offset + o = size THEN 3 ELSE 4)      \* just above / far above
  ELSE IF offset + o = 0 THEN 5 ELSE IF offset + o = size - 1 THEN 6 ELSE 7 \* first / last / inner cell
Placement(s, e) ==                  \* the case of make_accessible(s, e)
  LET nb == NeededBelow(s)  na == NeededAbove(e)  grow == NewSize(s, e) - size IN
  IF nb = 0 /\ na = 0 THEN 0
  ELSE IF nb = 0 THEN 1                                     \* grows above only
  ELSE IF na = 0 THEN 2                                     \* grows below only
  ELSE IF MaxI(nb, grow \div 2) = nb /\ nb <= grow - na THEN 3       \* both: needed_below wins
  ELSE IF grow \div 2 <= grow - na THEN 4                            \* both: half of the growth
  ELSE 5                                                             \* both: clamped by needed_above
Class(call, s, e) == 100 * call + 10 * Placement(s, e) + Position(s)

Log(call) == n' = n + 1 /\ hist' = IF GEN >= 1 THEN Append(hist, call) ELSE hist

Live == ~aborted /\ n < Depth
AllocChoices == IF FAIL = 1 THEN {TRUE, FALSE} ELSE {TRUE}

Mov == \E d \in Off : Live /\ AbsMov(d) /\ ImplMov(d) /\ Log(<<"mov", d>>) /\ cls' = 100 + Position(d)
Read == \E o \in Off : Live /\ AbsRead(o) /\ UNCHANGED impl /\ Log(<<"read", o, ImplRead(o)>>)
                      /\ cls' = 200 + Position(o)
Check == \E o \in Off : Live /\ AbsCheck(o, ImplCheck(o)) /\ UNCHANGED impl
                       /\ Log(<<"check", o, IF ImplCheck(o) THEN 1 ELSE 0>>) /\ cls' = 300 + Position(o)
Write == \E o \in Off, v \in 0..MaxVal, ok \in AllocChoices :
           /\ Live /\ ImplWrite(o, v, ok)
           /\ IF aborted' THEN UNCHANGED abs ELSE AbsWrite(o, v)
           /\ Log(<<"write", o, v>>) /\ cls' = (IF ok THEN Class(4, o, o + 1) ELSE 490)
MakeAcc == \E s \in Off, e \in Off, ok \in AllocChoices :
           /\ Live /\ ImplMakeAcc(s, e, ok)
           /\ IF aborted' THEN UNCHANGED abs ELSE AbsMakeAcc(s, e)
           /\ Log(<<"acc", s, e>>) /\ cls' = (IF ok THEN Class(5, s, e) ELSE 590)

Next == Mov \/ Read \/ Check \/ Write \/ MakeAcc
Spec == Init /\ [][Next]_vars

-----------------------------------------------------------------------------
(* Refinement mapping and the clauses of C09.                               *)
Logical(i) == base + i - 1            \* logical index of buf[i]

\* the buffer is a window of the abstract array, and nothing is outside it
ContentsAgree ==
  /\ Len(buf) = size
  /\ \A i \in 1..size : buf[i] = ACell(Logical(i))
  /\ \A p \in DOMAIN cells : base <= p /\ p < base + size
PointerAgrees == ptr = base + offset
\* every read returns the last value written to that logical cell (0 if never)
ReadsAgree == \A o \in Off : ImplRead(o) = ACell(ptr + o)
\* a requested range is reported accessible afterwards - and for ever
RequestedAccessible == \A p \in accLo..(accHi - 1) : base <= p /\ p < base + size
Refinement == ContentsAgree /\ PointerAgrees /\ ReadsAgree /\ RequestedAccessible

\* reads, bounds queries and moves never allocate (and never change the buffer)
NoAllocOnQuery ==
  [][ret' \in {<<"mov">>} \/ ret'[1] \in {"read", "check"} => allocs' = allocs /\ size' = size /\ buf' = buf]_vars
\* growth in either direction preserves contents and the logical pointer
GrowthPreserves ==
  [][size' # size => /\ ptr' = ptr
                      /\ \A p \in (base..(base + size - 1)) : \* old window
                           (ret'[1] # "write") => ACell(p)' = ACell(p)]_vars
\* C17 (model side): after a refused allocation nothing else happens
AbortIsFinal == [][aborted => FALSE]_vars

SizeBound == size <= MaxSize

\* GEN = 1: one line per complete history
\* GEN = 2: transition cover - the history of the first (breadth-first, hence shortest) arrival at
\* every transition class; the VIEW hides the history, so every state is expanded once and keeps
\* the history of its first arrival; TLC registers remember which classes were printed already
Emit == /\ (GEN = 1 /\ (n = Depth \/ aborted)) => PrintT(ToJson([hist |-> hist, aborted |-> aborted]))
        /\ (GEN = 2 /\ cls # 0 /\ ~aborted /\ TLCGet(cls) = 0) =>
             (TLCSet(cls, 1) /\ PrintT(ToJson([hist |-> hist, cls |-> cls])))
ASSUME GEN # 2 \/ \A k \in 1..600 : TLCSet(k, 0)

\* hide the history from the fingerprint when only checking
View == <<abs, impl, n, cls>>
=============================================================================
