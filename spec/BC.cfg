SPECIFICATION Spec
INVARIANT Report
INVARIANT WindowInside
PROPERTY AccGrows
CHECK_DEADLOCK FALSE
