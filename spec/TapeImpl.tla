------------------------------ MODULE TapeImpl ------------------------------
(***************************************************************************)
(* Implementation level of the tape: src/runtime.rs `Memory`, one action   *)
(* per public method, with the exact arithmetic of `make_accessible`.      *)
(*                                                                         *)
(*   size    number of cells of the buffer                                 *)
(*   offset  index of the current cell in the buffer.  The code keeps it   *)
(*           in a usize and lets it wrap; here it is an integer, and       *)
(*           "offset + o < size" of the code (unsigned) is                 *)
(*           0 <= offset + o < size.                                       *)
(*   buf     the buffer, a sequence of `size` values (1-based in TLA+)     *)
(*   base    ghost: logical index of buf[1]; never read by the actions'    *)
(*           results, only by the refinement mapping                       *)
(*   allocs  ghost: number of allocations performed so far                 *)
(*   aborted TRUE once an allocation request was refused (C17): the only   *)
(*           thing that may follow is nothing                              *)
(***************************************************************************)
EXTENDS Integers, Sequences, TLC

VARIABLES size, offset, buf, base, allocs, aborted
impl == <<size, offset, buf, base, allocs, aborted>>

ImplInit == size = 0 /\ offset = 0 /\ buf = <<>> /\ base = 0 /\ allocs = 0 /\ aborted = FALSE

MaxI(a, b) == IF a > b THEN a ELSE b
MinI(a, b) == IF a < b THEN a ELSE b
InBuf(o) == 0 <= offset + o /\ offset + o < size

NeededBelow(s) == IF offset + s < 0 THEN -(offset + s) ELSE 0
NeededAbove(e) == IF offset + e > size THEN offset + e - size ELSE 0
NewSize(s, e) == size + MaxI(size \div 2, NeededBelow(s) + NeededAbove(e))
AddedBelow(s, e) ==
  LET nb == NeededBelow(s)  na == NeededAbove(e)  grow == NewSize(s, e) - size IN
  IF nb = 0 THEN 0
  ELSE IF na = 0 THEN grow
  ELSE MinI(MaxI(nb, grow \div 2), grow - na)

Zeros(n) == [i \in 1..n |-> 0]

\* the body of make_accessible; allocOk = FALSE models alloc_zeroed returning null
Grow(s, e, allocOk) ==
  IF NeededBelow(s) = 0 /\ NeededAbove(e) = 0
  THEN UNCHANGED impl
  ELSE IF ~allocOk
  THEN aborted' = TRUE /\ UNCHANGED <<size, offset, buf, base, allocs>>
  ELSE LET ns == NewSize(s, e)  ab == AddedBelow(s, e) IN
       /\ size' = ns
       /\ buf' = Zeros(ab) \o buf \o Zeros(ns - size - ab)
       /\ offset' = offset + ab
       /\ base' = base - ab
       /\ allocs' = allocs + 1
       /\ UNCHANGED aborted

ImplMov(d)  == offset' = offset + d /\ UNCHANGED <<size, buf, base, allocs, aborted>>
ImplRead(o) == IF InBuf(o) THEN buf[offset + o + 1] ELSE 0          \* a value, not an action
ImplCheck(o) == InBuf(o)                                            \* a value, not an action
ImplMakeAcc(s, e, allocOk) == Grow(s, e, allocOk)
ImplWrite(o, v, allocOk) ==
  IF InBuf(o)
  THEN buf' = [buf EXCEPT ![offset + o + 1] = v] /\ UNCHANGED <<size, offset, base, allocs, aborted>>
  ELSE IF ~allocOk
  THEN aborted' = TRUE /\ UNCHANGED <<size, offset, buf, base, allocs>>
  ELSE \* write_out_of_bounds: make_accessible(o, o + 1), then store
       LET ns == NewSize(o, o + 1)  ab == AddedBelow(o, o + 1)
           nb == Zeros(ab) \o buf \o Zeros(ns - size - ab) IN
       /\ size' = ns /\ offset' = offset + ab /\ base' = base - ab /\ allocs' = allocs + 1
       /\ buf' = [nb EXCEPT ![offset + ab + o + 1] = v]
       /\ UNCHANGED aborted
=============================================================================
