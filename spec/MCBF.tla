-------------------------------- MODULE MCBF --------------------------------
(***************************************************************************)
(* Design check of the canonical machine itself (it is the oracle of ten   *)
(* properties, so it is model checked on its own): every balanced program  *)
(* up to a length bound (enumerated by BFGen.tla), at tiny and real        *)
(* widths, with several input streams and fault plans.                     *)
(***************************************************************************)
EXTENDS BF

VARIABLE ev,             \* history: the events emitted so far
         pred            \* prediction made when a linear loop is entered: <<exit pc, tape, ptr, events>>
mcvars == <<machine, ev, pred>>

\* entering a linear loop (the machine itself runs it step by step here)
HereEff == LoopEff(Prog, pc, jt[pc])
EntersLinear == status = "run" /\ Op = "[" /\ ~CIsZero(Cell(ptr)) /\ HereEff # <<>>

MCInit == Init /\ ev = <<>> /\ pred = <<>>
MCNext == /\ Step
          /\ ev' = (IF last' = NoEv THEN ev ELSE Append(ev, last'))
          /\ pred' = IF EntersLinear
                     THEN <<jt[pc] + 1, AccelTape(tape, ptr, HereEff, W), ptr, evN,
                            lo, hi, ptr + HereEff[3], ptr + HereEff[4]>>
                     ELSE IF pred # <<>> /\ pc = pred[1] THEN <<>> ELSE pred
MCSpec == MCInit /\ [][MCNext]_mcvars

\* ---- independent definition of bracket matching: scan with a depth counter
RECURSIVE CloseOf(_, _, _)
CloseOf(prog, j, depth) ==      \* position of the "]" closing the bracket opened before j at `depth'
  IF prog[j] = "[" THEN CloseOf(prog, j + 1, depth + 1)
  ELSE IF prog[j] = "]" THEN (IF depth = 0 THEN j ELSE CloseOf(prog, j + 1, depth - 1))
  ELSE CloseOf(prog, j + 1, depth)
JumpsMatch ==
  \A k \in 1..Len(Prog) :
    Prog[k] = "[" => /\ jt[k] = CloseOf(Prog, k + 1, 0)
                     /\ jt[jt[k]] = k

\* ---- invariants
\* the one-step summary of a linear loop (BF!Accel) is what the step-by-step run arrives at:
\* same tape, pointer, no event, and the pointer excursion the summary declares
AccelSound ==
  (pred # <<>> /\ pc = pred[1] /\ status = "run") =>
     /\ tape = pred[2] /\ ptr = pred[3] /\ evN = pred[4]
     /\ lo = Min(pred[5], pred[7]) /\ hi = Max(pred[6], pred[8])
HistoryOK == /\ Len(ev) = evN
             /\ (last # NoEv => ev # <<>> /\ ev[Len(ev)] = last)
\* a run proved divergent never halts (the machine keeps running after the proof)
DivSound == ~(div /\ status = "halted")
\* the number of outputs and input requests is what the history says
CountsOK == /\ outN = Cardinality({k \in DOMAIN ev : ev[k][1] = "out"}) \/ OutAbsent
            /\ ip - 1 = Cardinality({k \in DOMAIN ev : ev[k][1] = "in"}) \/ InAbsent \/ InSilent
\* the machine is deterministic: while running exactly one action is enabled
Enabled == <<ENABLED Inc, ENABLED Dec, ENABLED Right, ENABLED Left, ENABLED Open, ENABLED Close, ENABLED Comment,
             ENABLED Out, ENABLED OutRefused, ENABLED In, ENABLED InFailed, ENABLED InMissing, ENABLED Halt,
             ENABLED Capped>>
Deterministic ==
  status = "run" => Cardinality({k \in DOMAIN Enabled : Enabled[k]}) = 1
Terminal == status # "run" => \A k \in DOMAIN Enabled : ~Enabled[k]

\* ---- action properties
\* the history only grows, by at most one event per step
Grows == [][ev' = ev \/ (Len(ev') = Len(ev) + 1 /\ SubSeq(ev', 1, Len(ev)) = ev)]_mcvars
\* comments are no-ops, brackets and moves do not touch the tape
CommentNoop == [][(status = "run" /\ status' = "run" /\ Op \notin {"+", "-", ">", "<", "[", "]", ".", ",", "end"})
                  => (ptr' = ptr /\ tape' = tape /\ ip' = ip /\ outN' = outN /\ ev' = ev /\ pc' = pc + 1)]_mcvars
TapeOnlyByIncDecIn == [][tape' # tape => Op \in {"+", "-", ","}]_mcvars
\* a failed or refused operation ends the run on the spot, once
StopIsFinal == [][status = "stopped" => FALSE]_mcvars
FaultStopsInPlace == [][status' = "stopped" => (pc' = pc /\ ptr' = ptr /\ tape' = tape)]_mcvars
=============================================================================
