SPECIFICATION Spec
INVARIANT EmitCase
CHECK_DEADLOCK FALSE
