------------------------------ MODULE SmallVec ------------------------------
(***************************************************************************)
(* C18, property level: the inline small vector is a standard vector, and  *)
(* every element is dropped exactly once.                                  *)
(*                                                                         *)
(* State: the live vectors and by-value iterators, each a sequence of      *)
(* elements <<id, val>> (`id' is the identity of the element object, `val' *)
(* the value that equality and ordering look at), and the drop ledger.     *)
(* One action per public operation, with the meaning `Vec' gives it.       *)
(*                                                                         *)
(* This module doubles as the trace specification (SVTrace): every         *)
(* recorded call carries the slice view of every live vector after the     *)
(* call, the returned value, the identities created and the identities     *)
(* dropped during the call.  A recording is rejected when a view or a      *)
(* result differs from the vector model, when an identity is dropped twice *)
(* or while it is still reachable, and - at the end, when everything has   *)
(* been dropped - when some identity was never dropped.                    *)
(***************************************************************************)
EXTENDS Integers, Sequences, FiniteSets, TLC, Json, IOUtils

Cases == ndJsonDeserialize(IOEnv.CASES)

VARIABLES t, l,
          vecs,     \* vector name -> sequence of <<id, val>>
          iters,    \* iterator name -> remaining sequence of <<id, val>>
          created,  \* identities created so far
          dropped,  \* identities dropped so far
          verdict, why
vars == <<t, l, vecs, iters, created, dropped, verdict, why>>

Ev == Cases[t].events
Init == /\ t \in 1..Len(Cases) /\ l = 1 /\ vecs = <<>> /\ iters = <<>>
        /\ created = {} /\ dropped = {} /\ verdict = "run" /\ why = <<>>

Range(s) == {s[k] : k \in DOMAIN s}
Ids(s) == {x[1] : x \in Range(s)}
Vals(s) == [k \in DOMAIN s |-> s[k][2]]
SetVec(v, s) == IF v \in DOMAIN vecs THEN [vecs EXCEPT ![v] = s] ELSE (v :> s) @@ vecs
DelKey(f, k) == [x \in DOMAIN f \ {k} |-> f[x]]

\* ---- the meaning of the operations (what Vec does)
RECURSIVE Filter(_, _)
Filter(s, keep) == IF s = <<>> THEN <<>>
                   ELSE IF Head(s)[2] \in keep THEN <<Head(s)>> \o Filter(Tail(s), keep)
                   ELSE Filter(Tail(s), keep)
Bump(s, k) == [i \in DOMAIN s |-> <<s[i][1], (s[i][2] + k) % 4>>]
RECURSIVE Dedup(_)
Dedup(s) == IF Len(s) <= 1 THEN s
            ELSE LET r == Dedup(Tail(s)) IN
                 IF Head(s)[2] = Head(r)[2] THEN <<Head(s)>> \o Tail(r) ELSE <<Head(s)>> \o r
\* stable insertion sort by val
RECURSIVE Insert(_, _)
Insert(x, s) == IF s = <<>> THEN <<x>>
                ELSE IF Head(s)[2] <= x[2] THEN <<Head(s)>> \o Insert(x, Tail(s)) ELSE <<x>> \o s
RECURSIVE SortS(_)
SortS(s) == IF s = <<>> THEN <<>> ELSE Insert(s[Len(s)], SortS(SubSeq(s, 1, Len(s) - 1)))
RECURSIVE CmpSeq(_, _)
CmpSeq(a, b) == IF a = <<>> /\ b = <<>> THEN 0
                ELSE IF a = <<>> THEN -1 ELSE IF b = <<>> THEN 1
                ELSE IF Head(a) < Head(b) THEN -1 ELSE IF Head(a) > Head(b) THEN 1
                ELSE CmpSeq(Tail(a), Tail(b))
Pair(ids, vals) == [k \in DOMAIN ids |-> <<ids[k], vals[k]>>]

\* ---- one recorded call: e = [op, a, b, vals, ret, newids, views, dropped]
Reject(w) == verdict' = "rejected" /\ why' = w /\ UNCHANGED <<vecs, iters, created, dropped>>

Apply(e, vecs2, iters2, expectRet) ==
  LET live == UNION ({Ids(vecs2[v]) : v \in DOMAIN vecs2} \cup {Ids(iters2[i]) : i \in DOMAIN iters2})
      dr == Range(e.dropped)
      obs == [k \in DOMAIN e.views |-> e.views[k]]
  IN
  IF e.ret # expectRet THEN Reject(<<"result-mismatch", l, e.op, "expected", expectRet, "observed", e.ret>>)
  ELSE IF \E k \in DOMAIN e.views : e.views[k][1] \notin DOMAIN vecs2
       THEN Reject(<<"unknown-vector-in-view", l>>)
  ELSE IF \E k \in DOMAIN e.views : vecs2[e.views[k][1]] # e.views[k][2]
       THEN Reject(<<"contents-differ-from-Vec", l, e.op,
                     LET k == CHOOSE k \in DOMAIN e.views : vecs2[e.views[k][1]] # e.views[k][2]
                     IN <<"expected", vecs2[e.views[k][1]], "observed", e.views[k][2]>>>>)
  ELSE IF Len(e.views) # Cardinality(DOMAIN vecs2) THEN Reject(<<"missing-view", l>>)
  ELSE IF dr \cap dropped # {} THEN Reject(<<"dropped-twice", l, e.op, dr \cap dropped>>)
  ELSE IF dr \cap live # {} THEN Reject(<<"dropped-while-still-in-use", l, e.op, dr \cap live>>)
  ELSE IF ~(dr \subseteq created \cup Range(e.newids)) THEN Reject(<<"dropped-unknown-identity", l>>)
  ELSE /\ vecs' = vecs2 /\ iters' = iters2
       /\ created' = created \cup Range(e.newids)
       /\ dropped' = dropped \cup dr
       /\ verdict' = "run" /\ why' = why

Call ==
  /\ verdict = "run" /\ l <= Len(Ev) /\ l' = l + 1 /\ UNCHANGED t
  /\ LET e == Ev[l]  a == e.a  b == e.b IN
     CASE e.op \in {"new", "withcap"} -> Apply(e, SetVec(a, <<>>), iters, <<>>)
       [] e.op = "push"    -> Apply(e, SetVec(a, vecs[a] \o Pair(e.newids, e.vals)), iters, <<>>)
       [] e.op = "extend"  -> Apply(e, SetVec(a, vecs[a] \o Pair(e.newids, e.vals)), iters, <<>>)
       [] e.op = "clear"   -> Apply(e, SetVec(a, <<>>), iters, <<>>)
       [] e.op = "retain"  -> Apply(e, SetVec(a, Filter(vecs[a], Range(e.vals))), iters, <<>>)
       [] e.op = "retainmut" -> Apply(e, SetVec(a, Filter(Bump(vecs[a], b), Range(e.vals))), iters, <<>>)
       [] e.op = "dedup"   -> Apply(e, SetVec(a, Dedup(vecs[a])), iters, <<>>)
       [] e.op = "sort"    -> Apply(e, SetVec(a, SortS(vecs[a])), iters, <<>>)
       [] e.op = "clone"   -> Apply(e, SetVec(b, Pair(e.newids, Vals(vecs[a]))), iters, <<>>)
       [] e.op = "eq"      -> Apply(e, vecs, iters, <<IF Vals(vecs[a]) = Vals(vecs[b]) THEN 1 ELSE 0>>)
       [] e.op = "cmp"     -> Apply(e, vecs, iters, <<CmpSeq(Vals(vecs[a]), Vals(vecs[b]))>>)
       [] e.op = "iter"    -> Apply(e, vecs, iters, Vals(vecs[a]))
       [] e.op = "index"   -> Apply(e, vecs, iters, <<vecs[a][b + 1][2]>>)
       [] e.op = "intoiter" -> Apply(e, DelKey(vecs, a), (b :> vecs[a]) @@ iters, <<>>)
       [] e.op = "next"    -> IF iters[a] = <<>> THEN Apply(e, vecs, iters, <<>>)
                              ELSE Apply(e, vecs, [iters EXCEPT ![a] = Tail(iters[a])], Head(iters[a]))
       [] e.op = "dropiter" -> Apply(e, vecs, DelKey(iters, a), <<>>)
       [] e.op = "drop"    -> Apply(e, DelKey(vecs, a), iters, <<>>)
       [] OTHER -> Reject(<<"unknown-operation", l, e.op>>)

\* the recording ends after everything was dropped: exactly-once means nothing is left
AtEnd ==
  /\ verdict = "run" /\ l = Len(Ev) + 1 /\ UNCHANGED <<t, l, vecs, iters, created, dropped>>
  /\ IF Cases[t].end # "ok" THEN verdict' = "rejected" /\ why' = <<"abnormal-end", Cases[t].end>>
     ELSE IF DOMAIN vecs # {} \/ DOMAIN iters # {} THEN verdict' = "rejected" /\ why' = <<"history-left-objects-alive">>
     ELSE IF Cases[t].ledger = 1 /\ created # dropped
     THEN verdict' = "rejected" /\ why' = <<"never-dropped", created \ dropped>>
     ELSE verdict' = "accepted" /\ why' = <<"complete", l - 1>>

Next == Call \/ AtEnd
Spec == Init /\ [][Next]_vars

\* at no time is an identity dropped that a live container still holds
NoUseAfterDrop == \A v \in DOMAIN vecs : Ids(vecs[v]) \cap dropped = {}

Report == verdict \in {"accepted", "rejected"} =>
  PrintT(ToJson([id |-> Cases[t].id, verdict |-> verdict, why |-> ToString(why), pos |-> l]))
=============================================================================
