------------------------------- MODULE BFGen -------------------------------
(***************************************************************************)
(* Generator of population E: every bracket-balanced Brainfuck program of  *)
(* at most MAXLEN command characters.  TLC enumerates the prefixes         *)
(* breadth-first; every reachable state with no open bracket is a program  *)
(* and is printed once (one JSON line).  A '[' is only appended when the   *)
(* remaining length still allows closing every open bracket, so every      *)
(* prefix can be completed and nothing is generated in vain.               *)
(***************************************************************************)
EXTENDS Integers, Sequences, TLC, Json, IOUtils

MaxLen == atoi(IOEnv.MAXLEN)
Commands == {"+", "-", "<", ">", ".", ","}

VARIABLES p,    \* the program text so far (a string)
          n,    \* its length
          d     \* number of open brackets
vars == <<p, n, d>>

Init == p = "" /\ n = 0 /\ d = 0

AppendCmd == \E ch \in Commands :
               /\ n + 1 + d <= MaxLen
               /\ p' = p \o ch /\ n' = n + 1 /\ d' = d
OpenLoop  == /\ n + 1 + (d + 1) <= MaxLen
             /\ p' = p \o "[" /\ n' = n + 1 /\ d' = d + 1
CloseLoop == /\ d > 0
             /\ p' = p \o "]" /\ n' = n + 1 /\ d' = d - 1

Next == AppendCmd \/ OpenLoop \/ CloseLoop
Spec == Init /\ [][Next]_vars

\* balanced at every point by construction
Balanced == d >= 0 /\ n + d <= MaxLen
Emit == (d = 0 /\ n >= 1) => PrintT(ToJson([prog |-> p]))
=============================================================================
