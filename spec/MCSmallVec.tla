----------------------------- MODULE MCSmallVec -----------------------------
(***************************************************************************)
(* C18, implementation level: src/smallvec.rs as a state machine, checked  *)
(* by TLC to refine the vector model and to drop every element exactly     *)
(* once, under every operation sequence within small bounds.               *)
(*                                                                         *)
(*   size    the discriminant: 0..N = number of initialised inline slots,  *)
(*           N+1 = the heap representation                                 *)
(*   slots   the inline array; a slot is <<id, val>> or None               *)
(*           (uninitialised / moved out / dropped)                         *)
(*   heap    the Vec of the heap representation                            *)
(*   iter    by-value iterator: None, [k |-> "small", arr, i, n] or        *)
(*           [k |-> "large", rest]                                         *)
(*   drops   id -> number of times the destructor ran                      *)
(*   bad     set when the code would read or drop a None slot              *)
(*   avec, aiter   the abstract vector / iterator (what Vec would hold)    *)
(*                                                                         *)
(* The compaction loops of retain / dedup are transcribed as coded.        *)
(* LEAK = 1 reproduces the loops as they were before the repair (removed   *)
(* elements skipped without dropping): TLC then refutes ExactlyOnce with a *)
(* three-step counterexample (push, retain nothing, drop) - this is the    *)
(* self-test that the invariant is not vacuous.                            *)
(***************************************************************************)
EXTENDS Integers, Sequences, FiniteSets, TLC, Json, IOUtils

N     == atoi(IOEnv.N)
Depth == atoi(IOEnv.DEPTH)
LEAK  == atoi(IOEnv.LEAK)
GEN   == atoi(IOEnv.GEN)
Vals  == {0, 1}
None  == <<>>

VARIABLES size, slots, heap, iter, drops, bad, avec, aiter, alive, nextId, n, hist
vars == <<size, slots, heap, iter, drops, bad, avec, aiter, alive, nextId, n, hist>>

Init == /\ size = 0 /\ slots = [k \in 1..N |-> None] /\ heap = <<>> /\ iter = None
        /\ drops = <<>> /\ bad = FALSE /\ avec = <<>> /\ aiter = None /\ alive = TRUE
        /\ nextId = 1 /\ n = 0 /\ hist = <<>>

Inline == size <= N
Contents == IF Inline THEN [k \in 1..size |-> slots[k]] ELSE heap
DropAll(d, ids) == [i \in DOMAIN d \cup ids |-> (IF i \in DOMAIN d THEN d[i] ELSE 0) + (IF i \in ids THEN 1 ELSE 0)]
IdsOf(s) == {s[k][1] : k \in {j \in DOMAIN s : s[j] # None}}
Log(c) == n' = n + 1 /\ hist' = IF GEN = 1 THEN Append(hist, c) ELSE hist
Live == alive /\ iter = None /\ n < Depth /\ ~bad

\* ---- push (push_promote moves the N inline elements and the new one to the heap)
Push(v) ==
  /\ Live /\ Len(avec) < N + 2
  /\ LET e == <<nextId, v>> IN
     /\ IF size < N THEN slots' = [slots EXCEPT ![size + 1] = e] /\ size' = size + 1 /\ UNCHANGED heap
        ELSE IF size = N
        THEN heap' = [k \in 1..N |-> slots[k]] \o <<e>> /\ size' = N + 1
             /\ slots' = [k \in 1..N |-> None]
             /\ UNCHANGED <<>>
        ELSE heap' = Append(heap, e) /\ UNCHANGED <<size, slots>>
     /\ avec' = Append(avec, e) /\ nextId' = nextId + 1
  /\ Log(<<"push", v>>) /\ UNCHANGED <<iter, drops, bad, aiter, alive>>

\* ---- clear
Clear ==
  /\ Live
  /\ IF Inline THEN size' = 0 /\ slots' = [k \in 1..N |-> None] /\ UNCHANGED heap
     ELSE heap' = <<>> /\ UNCHANGED <<size, slots>>
  /\ drops' = DropAll(drops, IdsOf(Contents)) /\ avec' = <<>>
  /\ Log(<<"clear">>) /\ UNCHANGED <<iter, bad, aiter, alive, nextId>>

\* ---- retain: the inline compaction loop as coded (state: <<slots, newSize, dropped ids, bad>>)
RECURSIVE RetainLoop(_, _, _, _)
RetainLoop(i, old, keep, st) ==
  IF i > old THEN st
  ELSE LET sl == st[1]  j == st[2] IN
       IF sl[i] = None THEN RetainLoop(i + 1, old, keep, <<sl, j, st[3], TRUE>>)
       ELSE IF sl[i][2] \in keep
       THEN RetainLoop(i + 1, old, keep,
                       <<IF i # j + 1 THEN [sl EXCEPT ![j + 1] = sl[i], ![i] = None] ELSE sl, j + 1, st[3], st[4]>>)
       ELSE RetainLoop(i + 1, old, keep,
                       IF LEAK = 1 THEN <<sl, j, st[3], st[4]>>                          \* before the repair: skipped
                       ELSE <<[sl EXCEPT ![i] = None], j, st[3] \cup {sl[i][1]}, st[4]>>) \* assume_init_drop
RECURSIVE FilterSeq(_, _)
FilterSeq(s, keep) == IF s = <<>> THEN <<>>
                      ELSE IF Head(s)[2] \in keep THEN <<Head(s)>> \o FilterSeq(Tail(s), keep)
                      ELSE FilterSeq(Tail(s), keep)
Retain(keep) ==
  /\ Live
  /\ IF Inline
     THEN LET r == RetainLoop(1, size, keep, <<slots, 0, {}, FALSE>>) IN
          /\ slots' = r[1] /\ size' = r[2] /\ drops' = DropAll(drops, r[3]) /\ bad' = r[4] /\ UNCHANGED heap
     ELSE /\ heap' = FilterSeq(heap, keep)
          /\ drops' = DropAll(drops, IdsOf(heap) \ IdsOf(FilterSeq(heap, keep)))
          /\ UNCHANGED <<size, slots, bad>>
  /\ avec' = FilterSeq(avec, keep)
  /\ Log(<<"retain", keep>>) /\ UNCHANGED <<iter, aiter, alive, nextId>>

\* ---- dedup: inline loop as coded
RECURSIVE DedupLoop(_, _, _)
DedupLoop(i, old, st) ==
  IF i > old THEN st
  ELSE LET sl == st[1]  j == st[2] IN      \* j = number kept so far (>= 1)
       IF sl[i] = None \/ sl[j] = None THEN DedupLoop(i + 1, old, <<sl, j, st[3], TRUE>>)
       ELSE IF sl[i][2] # sl[j][2]
       THEN DedupLoop(i + 1, old, <<IF i # j + 1 THEN [sl EXCEPT ![j + 1] = sl[i], ![i] = None] ELSE sl,
                                    j + 1, st[3], st[4]>>)
       ELSE DedupLoop(i + 1, old, IF LEAK = 1 THEN <<sl, j, st[3], st[4]>>
                                  ELSE <<[sl EXCEPT ![i] = None], j, st[3] \cup {sl[i][1]}, st[4]>>)
RECURSIVE DedupSeq(_)
DedupSeq(s) == IF Len(s) <= 1 THEN s
               ELSE LET r == DedupSeq(Tail(s)) IN
                    IF Head(s)[2] = Head(r)[2] THEN <<Head(s)>> \o Tail(r) ELSE <<Head(s)>> \o r
Dedup ==
  /\ Live
  /\ IF Inline
     THEN IF size = 0 THEN UNCHANGED <<slots, size, drops, bad, heap>>
          ELSE LET r == DedupLoop(2, size, <<slots, 1, {}, FALSE>>) IN
               /\ slots' = r[1] /\ size' = r[2] /\ drops' = DropAll(drops, r[3]) /\ bad' = r[4] /\ UNCHANGED heap
     ELSE /\ heap' = DedupSeq(heap) /\ drops' = DropAll(drops, IdsOf(heap) \ IdsOf(DedupSeq(heap)))
          /\ UNCHANGED <<size, slots, bad>>
  /\ avec' = DedupSeq(avec)
  /\ Log(<<"dedup">>) /\ UNCHANGED <<iter, aiter, alive, nextId>>

\* ---- by-value iteration
IntoIter ==
  /\ Live
  /\ iter' = (IF Inline THEN [k |-> "small", arr |-> slots, i |-> 0, sz |-> size] ELSE [k |-> "large", rest |-> heap])
  /\ aiter' = avec /\ alive' = FALSE          \* the vector is consumed (ManuallyDrop: no destructor runs)
  /\ Log(<<"intoiter">>) /\ UNCHANGED <<size, slots, heap, drops, bad, avec, nextId>>
NextItem ==
  /\ iter # None /\ n < Depth /\ ~bad
  /\ IF iter.k = "small"
     THEN IF iter.i < iter.sz
          THEN /\ bad' = (iter.arr[iter.i + 1] = None)
               /\ iter' = [iter EXCEPT !.i = iter.i + 1, !.arr = [iter.arr EXCEPT ![iter.i + 1] = None]]
               \* the element handed out is dropped by the caller
               /\ drops' = IF iter.arr[iter.i + 1] = None THEN drops ELSE DropAll(drops, {iter.arr[iter.i + 1][1]})
          ELSE UNCHANGED <<iter, drops, bad>>
     ELSE IF iter.rest # <<>>
          THEN iter' = [iter EXCEPT !.rest = Tail(iter.rest)] /\ drops' = DropAll(drops, {Head(iter.rest)[1]})
               /\ UNCHANGED bad
          ELSE UNCHANGED <<iter, drops, bad>>
  /\ aiter' = IF aiter = <<>> THEN aiter ELSE Tail(aiter)
  /\ Log(<<"next">>) /\ UNCHANGED <<size, slots, heap, avec, alive, nextId>>
DropIter ==
  /\ iter # None /\ n < Depth
  /\ drops' = DropAll(drops, IF iter.k = "small"
                             THEN IdsOf([k \in (iter.i + 1)..iter.sz |-> iter.arr[k]])
                             ELSE IdsOf(iter.rest))
  /\ iter' = None /\ aiter' = None
  /\ Log(<<"dropiter">>) /\ UNCHANGED <<size, slots, heap, bad, avec, alive, nextId>>
DropVec ==
  /\ alive /\ iter = None /\ n < Depth
  /\ drops' = DropAll(drops, IdsOf(Contents)) /\ alive' = FALSE /\ avec' = <<>>
  /\ size' = 0 /\ slots' = [k \in 1..N |-> None] /\ heap' = <<>>
  /\ Log(<<"drop">>) /\ UNCHANGED <<iter, bad, aiter, nextId>>

Next == (\E v \in Vals : Push(v)) \/ Clear \/ (\E keep \in SUBSET Vals : Retain(keep)) \/ Dedup
        \/ IntoIter \/ NextItem \/ DropIter \/ DropVec
Spec == Init /\ [][Next]_vars

\* ---- refinement and the drop clauses
ContentsAgree == alive => Contents = avec
IterAgrees == iter # None =>
  aiter = (IF iter.k = "small" THEN [k \in 1..(iter.sz - iter.i) |-> iter.arr[iter.i + k]] ELSE iter.rest)
NoBadAccess == ~bad
AtMostOnce == \A i \in DOMAIN drops : drops[i] <= 1
NoDropWhileReachable == alive => \A i \in IdsOf(Contents) : i \notin DOMAIN drops \/ drops[i] = 0
\* once the vector and the iterator are gone, every element created has been dropped exactly once
ExactlyOnce == (~alive /\ iter = None) => \A i \in 1..(nextId - 1) : i \in DOMAIN drops /\ drops[i] = 1
Emit == (GEN = 1 /\ ~alive /\ iter = None) => PrintT(ToJson([hist |-> hist, n |-> N]))
View == <<size, slots, heap, iter, drops, bad, avec, aiter, alive, nextId, n>>
=============================================================================
