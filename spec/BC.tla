--------------------------------- MODULE BC ---------------------------------
(***************************************************************************)
(* The bytecode machine: the meaning of a `bc::Program' (src/bc.rs), as    *)
(* the threaded-code interpreter and the baseline JIT are meant to run it. *)
(*                                                                         *)
(*   pc     0-based instruction index                                      *)
(*   ptr    data pointer, tape  sparse tape (as in BF.tla)                 *)
(*   tmps   the temporaries (index -> cell), initially all zero            *)
(*   ip, l  next input byte, next unconsumed entry of the event log        *)
(*   accLo, accHi   the cells the bounds protocol has made accessible      *)
(*          (hull of all requests; TapeAbs): on entry the window           *)
(*          [min_accessed, max_accessed] around the pointer; after every   *)
(*          pointer move the far edge of the window is probed and the      *)
(*          whole window requested again if the probe fails                *)
(*                                                                         *)
(* One action per instruction kind.  Operands are read left to right; a    *)
(* MemZero operand is cleared when it is read.                             *)
(*                                                                         *)
(* The module is a trace specification at the same time: the event log of  *)
(* a case (a log that BFTrace accepted as the complete canonical run) must *)
(* be exactly what the bytecode emits.  Accepting it means the bytecode    *)
(* generator (and the optimiser before it) preserved the canonical         *)
(* behaviour on this case - decided without executing the interpreter or   *)
(* the JIT; rejecting it while the real backends produced the canonical    *)
(* log points at this model (drift), rejecting it together with BFTrace    *)
(* rejecting the real log localises a defect in src/bc.rs or src/opt.rs.   *)
(* Invariant InWindow: every tape access lies inside the declared window   *)
(* and inside what the bounds protocol has made accessible (C06, static    *)
(* half, on the executed path).                                            *)
(***************************************************************************)
EXTENDS Integers, Sequences, FiniteSets, TLC, Cell, Json, IOUtils

Cases    == ndJsonDeserialize(IOEnv.CASES)
MaxSteps == atoi(IOEnv.MAXSTEPS)

VARIABLES c, pc, ptr, tape, tmps, ip, l, accLo, accHi, steps, verdict, why
vars == <<c, pc, ptr, tape, tmps, ip, l, accLo, accHi, steps, verdict, why>>

W     == Cases[c].w
Insts == Cases[c].insts
N     == Len(Insts)
Ins   == Insts[pc + 1]
Input == Cases[c].input
Log   == Cases[c].log
Min   == Cases[c].min
Max   == Cases[c].max

Cell(t, p) == IF p \in DOMAIN t THEN t[p] ELSE CZero(W)
Put(t, p, v) ==
  IF CIsZero(v)
  THEN IF p \in DOMAIN t THEN [q \in DOMAIN t \ {p} |-> t[q]] ELSE t
  ELSE IF p \in DOMAIN t THEN [t EXCEPT ![p] = v] ELSE (p :> v) @@ t
Tmp(k) == IF k \in DOMAIN tmps THEN tmps[k] ELSE CZero(W)

Init ==
  /\ c \in 1..Len(Cases) /\ pc = 0 /\ ptr = 0 /\ tape = <<>> /\ tmps = <<>> /\ ip = 1 /\ l = 1
  /\ accLo = Min /\ accHi = Max + 1           \* entry: make_accessible(min, max + 1)
  /\ steps = 0 /\ verdict = "run" /\ why = <<>>

Accessible(p) == accLo <= p /\ p < accHi
InDeclared(o) == Min <= o /\ o <= Max

\* reading an operand: <<value, tape afterwards>>
ReadLoc(x, t) ==
  CASE x[1] = "m" -> <<Cell(t, ptr + x[2]), t>>
    [] x[1] = "z" -> <<Cell(t, ptr + x[2]), Put(t, ptr + x[2], CZero(W))>>
    [] x[1] = "t" -> <<Tmp(x[2]), t>>
    [] x[1] = "i" -> <<x[2], t>>
MemOffsets(xs) == {x[2] : x \in {y \in {xs[k] : k \in DOMAIN xs} : y[1] \in {"m", "z"}}}

Keep == UNCHANGED <<c, verdict, why>>
Tick == steps' = steps + 1
Decide(v, w) == /\ verdict' = v /\ why' = w
                /\ UNCHANGED <<c, pc, ptr, tape, tmps, ip, l, accLo, accHi, steps>>

Running == verdict = "run" /\ pc < N /\ steps < MaxSteps
\* an access at offset o from the pointer must be inside the window and accessible
Bad(offs) == \E o \in offs : ~InDeclared(o) \/ ~Accessible(ptr + o)
BadWhy(offs) == LET o == CHOOSE o \in offs : ~InDeclared(o) \/ ~Accessible(ptr + o) IN
                <<"access-outside-window-or-allocation", pc, o, ptr, accLo, accHi>>

Noop == Running /\ Ins[1] = "noop" /\ pc' = pc + 1 /\ Tick /\ Keep
        /\ UNCHANGED <<ptr, tape, tmps, ip, l, accLo, accHi>>

\* after a pointer move by `shift' the far edge of the window is probed
Probe(p2, shift) ==
  IF shift < 0
  THEN IF Accessible(p2 + Min) THEN UNCHANGED <<accLo, accHi>>
       ELSE accLo' = (IF p2 + Min < accLo THEN p2 + Min ELSE accLo)
            /\ accHi' = (IF p2 + Max + 1 > accHi THEN p2 + Max + 1 ELSE accHi)
  ELSE IF Accessible(p2 + Max) THEN UNCHANGED <<accLo, accHi>>
       ELSE accLo' = (IF p2 + Min < accLo THEN p2 + Min ELSE accLo)
            /\ accHi' = (IF p2 + Max + 1 > accHi THEN p2 + Max + 1 ELSE accHi)

Mov == /\ Running /\ Ins[1] = "mov"
       /\ ptr' = ptr + Ins[2] /\ Probe(ptr + Ins[2], Ins[2])
       /\ pc' = pc + 1 /\ Tick /\ Keep /\ UNCHANGED <<tape, tmps, ip, l>>

\* one iteration of a scan per step
Scan == /\ Running /\ Ins[1] = "scan"
        /\ IF Bad({Ins[2]}) THEN Decide("rejected", BadWhy({Ins[2]}))
           ELSE IF CIsZero(Cell(tape, ptr + Ins[2]))
           THEN pc' = pc + 1 /\ Tick /\ Keep /\ UNCHANGED <<ptr, tape, tmps, ip, l, accLo, accHi>>
           ELSE IF Ins[3] = 0
           THEN Decide("rejected", <<"bytecode-diverges-in-stationary-scan", pc>>)
           ELSE /\ ptr' = ptr + Ins[3] /\ Probe(ptr + Ins[3], Ins[3])
                /\ Tick /\ Keep /\ UNCHANGED <<pc, tape, tmps, ip, l>>

Branch == /\ Running /\ Ins[1] \in {"brz", "brnz"}
          /\ IF Bad({Ins[2]}) THEN Decide("rejected", BadWhy({Ins[2]}))
             ELSE LET z == CIsZero(Cell(tape, ptr + Ins[2]))
                      taken == IF Ins[1] = "brz" THEN z ELSE ~z IN
                  /\ pc' = (IF taken THEN pc + Ins[3] ELSE pc + 1)
                  /\ Tick /\ Keep /\ UNCHANGED <<ptr, tape, tmps, ip, l, accLo, accHi>>

Out == /\ Running /\ Ins[1] = "out"
       /\ IF Bad({Ins[2]}) THEN Decide("rejected", BadWhy({Ins[2]}))
          ELSE LET e == <<"out", CByte(Cell(tape, ptr + Ins[2]))>> IN
               IF l <= Len(Log) /\ Log[l] = e
               THEN l' = l + 1 /\ pc' = pc + 1 /\ Tick /\ Keep /\ UNCHANGED <<ptr, tape, tmps, ip, accLo, accHi>>
               ELSE Decide("rejected", <<"bytecode-emits", e, "canonical-log-has",
                                         IF l <= Len(Log) THEN Log[l] ELSE <<"end">>, "at", l, "pc", pc>>)

Inp == /\ Running /\ Ins[1] = "inp"
       /\ IF Bad({Ins[2]}) THEN Decide("rejected", BadWhy({Ins[2]}))
          ELSE LET b == IF ip <= Len(Input) THEN Input[ip] ELSE 0
                   e == <<"in", IF ip <= Len(Input) THEN Input[ip] ELSE -1>> IN
               IF l <= Len(Log) /\ Log[l] = e
               THEN /\ l' = l + 1 /\ pc' = pc + 1 /\ ip' = ip + 1 /\ Tick /\ Keep
                    /\ tape' = Put(tape, ptr + Ins[2], CFromByte(b, W))
                    /\ UNCHANGED <<ptr, tmps, accLo, accHi>>
               ELSE Decide("rejected", <<"bytecode-requests-input", e, "canonical-log-has",
                                         IF l <= Len(Log) THEN Log[l] ELSE <<"end">>, "at", l, "pc", pc>>)

Arith ==
  /\ Running /\ Ins[1] \in {"add", "sub", "mul", "copy"}
  /\ LET dst  == Ins[2]
         srcs == IF Ins[1] = "copy" THEN <<Ins[3]>> ELSE <<Ins[3], Ins[4]>>
         offs == MemOffsets(<<dst>> \o srcs)
     IN
     IF Bad(offs) THEN Decide("rejected", BadWhy(offs))
     ELSE LET r0 == ReadLoc(srcs[1], tape)
              r1 == IF Len(srcs) = 2 THEN ReadLoc(srcs[2], r0[2]) ELSE r0
              v  == CASE Ins[1] = "add" -> CAdd(r0[1], r1[1], W)
                      [] Ins[1] = "sub" -> CSub(r0[1], r1[1], W)
                      [] Ins[1] = "mul" -> CMul(r0[1], r1[1], W)
                      [] OTHER -> r0[1]
              t2 == r1[2]
          IN /\ IF dst[1] = "t"
                THEN tmps' = (IF dst[2] \in DOMAIN tmps THEN [tmps EXCEPT ![dst[2]] = v] ELSE (dst[2] :> v) @@ tmps)
                     /\ tape' = t2
                ELSE tape' = Put(t2, ptr + dst[2], v) /\ UNCHANGED tmps
             /\ pc' = pc + 1 /\ Tick /\ Keep /\ UNCHANGED <<ptr, ip, l, accLo, accHi>>

Finish ==
  /\ verdict = "run"
  /\ IF pc >= N
     THEN IF l = Len(Log) + 1 THEN Decide("accepted", <<"bytecode-run-equals-canonical-log", l - 1, steps>>)
          ELSE Decide("rejected", <<"bytecode-halts-but-canonical-log-continues", l, Log[l]>>)
     ELSE steps >= MaxSteps /\ Decide("inconclusive", <<"cap", steps>>)

Next == Noop \/ Mov \/ Scan \/ Branch \/ Out \/ Inp \/ Arith \/ Finish
Spec == Init /\ [][Next]_vars

\* the accessible interval only grows (TapeAbs)
AccGrows == [][accLo' <= accLo /\ accHi' >= accHi]_vars
\* the window stays inside the accessible interval after every step (the design lemma of the one-sided probe)
WindowInside == verdict = "run" => (Accessible(ptr + Min) /\ Accessible(ptr + Max))

Report == verdict # "run" =>
  PrintT(ToJson([id |-> Cases[c].id, verdict |-> verdict, why |-> ToString(why), steps |-> steps]))
=============================================================================
