--------------------------------- MODULE IR ---------------------------------
(***************************************************************************)
(* The IR machine: the meaning of an (optimised) `ir::Program', as         *)
(* src/exec/irint.rs executes it.                                          *)
(*                                                                         *)
(* The structured program held by the IR interpreter (hook                 *)
(* `verif_program', expressions walked through the public `Expr::codegen'  *)
(* visitor) is laid out flat by the driver, one entry per instruction:     *)
(*   <<"out", src>>  <<"inp", dst>>                                        *)
(*   <<"calc", <<<<var, tree>>, ...>>>>   all right-hand sides are         *)
(*                   evaluated before any of the cells is written          *)
(*   <<"jz", cond, target>>   head of a Loop / If: skip the body when the  *)
(*                   condition cell is zero                                *)
(*   <<"mov", shift>>          the block's pointer shift, applied after    *)
(*                   the body                                              *)
(*   <<"jmp", target>>         back edge of a Loop                         *)
(* Expression trees: <<"i", value>> <<"m", offset>> <<"add"|"sub"|"mul",   *)
(* left, right>>.  All offsets are relative to the current pointer.        *)
(*                                                                         *)
(* Like BC.tla the module validates a canonical event log: accepting it    *)
(* means the optimiser preserved the canonical behaviour on this case,     *)
(* decided inside TLC, without running irint.rs.                           *)
(***************************************************************************)
EXTENDS Integers, Sequences, TLC, Cell, Json, IOUtils

Cases    == ndJsonDeserialize(IOEnv.CASES)
MaxSteps == atoi(IOEnv.MAXSTEPS)

VARIABLES c, pc, ptr, tape, ip, l, steps, verdict, why
vars == <<c, pc, ptr, tape, ip, l, steps, verdict, why>>

W     == Cases[c].w
Code  == Cases[c].code
N     == Len(Code)
Ins   == Code[pc + 1]
Input == Cases[c].input
Log   == Cases[c].log

Cell(p) == IF p \in DOMAIN tape THEN tape[p] ELSE CZero(W)
Put(t, p, v) ==
  IF CIsZero(v)
  THEN IF p \in DOMAIN t THEN [q \in DOMAIN t \ {p} |-> t[q]] ELSE t
  ELSE IF p \in DOMAIN t THEN [t EXCEPT ![p] = v] ELSE (p :> v) @@ t

RECURSIVE Eval(_)
Eval(e) ==
  CASE e[1] = "i" -> e[2]
    [] e[1] = "m" -> Cell(ptr + e[2])
    [] e[1] = "add" -> CAdd(Eval(e[2]), Eval(e[3]), W)
    [] e[1] = "sub" -> CSub(Eval(e[2]), Eval(e[3]), W)
    [] e[1] = "mul" -> CMul(Eval(e[2]), Eval(e[3]), W)

\* write a list of <<offset, value>> pairs, left to right
RECURSIVE PutAll(_, _, _)
PutAll(t, ws, k) == IF k > Len(ws) THEN t ELSE PutAll(Put(t, ptr + ws[k][1], ws[k][2]), ws, k + 1)

Init == /\ c \in 1..Len(Cases) /\ pc = 0 /\ ptr = 0 /\ tape = <<>> /\ ip = 1 /\ l = 1
        /\ steps = 0 /\ verdict = "run" /\ why = <<>>

Running == verdict = "run" /\ pc < N /\ steps < MaxSteps
Keep == UNCHANGED <<c, verdict, why>>
Tick == steps' = steps + 1
Decide(v, w) == verdict' = v /\ why' = w /\ UNCHANGED <<c, pc, ptr, tape, ip, l, steps>>

Calc == /\ Running /\ Ins[1] = "calc"
        /\ LET cs == Ins[2]
               vals == [k \in DOMAIN cs |-> <<cs[k][1], Eval(cs[k][2])>>]     \* evaluate first ...
           IN tape' = PutAll(tape, vals, 1)                                    \* ... then write
        /\ pc' = pc + 1 /\ Tick /\ Keep /\ UNCHANGED <<ptr, ip, l>>
Jz  == /\ Running /\ Ins[1] = "jz"
       /\ pc' = (IF CIsZero(Cell(ptr + Ins[2])) THEN Ins[3] ELSE pc + 1)
       /\ Tick /\ Keep /\ UNCHANGED <<ptr, tape, ip, l>>
Jmp == /\ Running /\ Ins[1] = "jmp" /\ pc' = Ins[2] /\ Tick /\ Keep /\ UNCHANGED <<ptr, tape, ip, l>>
Mov == /\ Running /\ Ins[1] = "mov" /\ ptr' = ptr + Ins[2] /\ pc' = pc + 1 /\ Tick /\ Keep
       /\ UNCHANGED <<tape, ip, l>>
Out == /\ Running /\ Ins[1] = "out"
       /\ LET e == <<"out", CByte(Cell(ptr + Ins[2]))>> IN
          IF l <= Len(Log) /\ Log[l] = e
          THEN l' = l + 1 /\ pc' = pc + 1 /\ Tick /\ Keep /\ UNCHANGED <<ptr, tape, ip>>
          ELSE Decide("rejected", <<"ir-emits", e, "canonical-log-has",
                                    IF l <= Len(Log) THEN Log[l] ELSE <<"end">>, "at", l, "pc", pc>>)
Inp == /\ Running /\ Ins[1] = "inp"
       /\ LET b == IF ip <= Len(Input) THEN Input[ip] ELSE 0
              e == <<"in", IF ip <= Len(Input) THEN Input[ip] ELSE -1>> IN
          IF l <= Len(Log) /\ Log[l] = e
          THEN /\ l' = l + 1 /\ pc' = pc + 1 /\ ip' = ip + 1 /\ Tick /\ Keep
               /\ tape' = Put(tape, ptr + Ins[2], CFromByte(b, W)) /\ UNCHANGED ptr
          ELSE Decide("rejected", <<"ir-requests-input", e, "canonical-log-has",
                                    IF l <= Len(Log) THEN Log[l] ELSE <<"end">>, "at", l, "pc", pc>>)
Finish ==
  /\ verdict = "run"
  /\ IF pc >= N
     THEN IF l = Len(Log) + 1 THEN Decide("accepted", <<"ir-run-equals-canonical-log", l - 1, steps>>)
          ELSE Decide("rejected", <<"ir-halts-but-canonical-log-continues", l, Log[l]>>)
     ELSE steps >= MaxSteps /\ Decide("inconclusive", <<"cap", steps>>)

Next == Calc \/ Jz \/ Jmp \/ Mov \/ Out \/ Inp \/ Finish
Spec == Init /\ [][Next]_vars
Report == verdict # "run" =>
  PrintT(ToJson([id |-> Cases[c].id, verdict |-> verdict, why |-> ToString(why), steps |-> steps]))
=============================================================================
