SPECIFICATION TraceSpec
INVARIANT Report
INVARIANT TraceTypeOK
CHECK_DEADLOCK FALSE
