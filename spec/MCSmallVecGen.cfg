SPECIFICATION Spec
INVARIANT ContentsAgree
INVARIANT ExactlyOnce
INVARIANT Emit
CHECK_DEADLOCK FALSE
