SPECIFICATION MCSpec
INVARIANT TypeOK
INVARIANT JumpsMatch
INVARIANT HistoryOK
INVARIANT DivSound
INVARIANT CountsOK
INVARIANT AccelSound
INVARIANT Deterministic
INVARIANT Terminal
PROPERTY Grows
PROPERTY CommentNoop
PROPERTY TapeOnlyByIncDecIn
PROPERTY StopIsFinal
PROPERTY FaultStopsInPlace
CHECK_DEADLOCK FALSE
