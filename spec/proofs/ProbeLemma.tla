----------------------------- MODULE ProbeLemma -----------------------------
(***************************************************************************)
(* The design lemma behind the bounds protocol of the bytecode backends    *)
(* (C06): the accessible cells form an interval [lo, hi); every            *)
(* instruction touches only offsets min..max around the pointer, with      *)
(* min <= 0 <= max.  If the whole window was accessible before a pointer   *)
(* move by s, then probing only the far edge in the direction of the move  *)
(* is enough: when that probe succeeds the whole window is accessible      *)
(* again; when it fails the protocol requests the window, after which it   *)
(* is accessible by construction (the hull grows to contain it).           *)
(* Proved for all integers with TLAPS (SMT back end).                      *)
(***************************************************************************)
EXTENDS Integers, TLAPS

Acc(p, lo, hi) == lo <= p /\ p < hi
WindowIn(ptr, min, max, lo, hi) == Acc(ptr + min, lo, hi) /\ Acc(ptr + max, lo, hi)

THEOREM ProbeRight ==
  ASSUME NEW ptr \in Int, NEW s \in Int, NEW min \in Int, NEW max \in Int, NEW lo \in Int, NEW hi \in Int,
         min <= 0, 0 <= max, s >= 0,
         WindowIn(ptr, min, max, lo, hi),
         Acc(ptr + s + max, lo, hi)                 \* the probe of the right edge succeeds
  PROVE  WindowIn(ptr + s, min, max, lo, hi)
  BY Z3 DEF WindowIn, Acc

THEOREM ProbeLeft ==
  ASSUME NEW ptr \in Int, NEW s \in Int, NEW min \in Int, NEW max \in Int, NEW lo \in Int, NEW hi \in Int,
         min <= 0, 0 <= max, s <= 0,
         WindowIn(ptr, min, max, lo, hi),
         Acc(ptr + s + min, lo, hi)                 \* the probe of the left edge succeeds
  PROVE  WindowIn(ptr + s, min, max, lo, hi)
<1>1. lo <= ptr + min /\ ptr + max < hi /\ lo <= ptr + s + min /\ ptr + s + min < hi
  BY DEF WindowIn, Acc
<1>2. lo <= (ptr + s) + min /\ (ptr + s) + min < hi
  BY <1>1
<1>3. lo <= (ptr + s) + max /\ (ptr + s) + max < hi
  BY <1>1
<1> QED
  BY <1>2, <1>3 DEF WindowIn, Acc

\* every offset of the window is accessible when its two edges are (the interval is convex)
THEOREM WindowConvex ==
  ASSUME NEW ptr \in Int, NEW min \in Int, NEW max \in Int, NEW lo \in Int, NEW hi \in Int, NEW o \in Int,
         min <= o, o <= max, WindowIn(ptr, min, max, lo, hi)
  PROVE  Acc(ptr + o, lo, hi)
  BY Z3 DEF WindowIn, Acc

\* after a failed probe the protocol requests [ptr+min, ptr+max+1); the hull then contains the window
THEOREM RequestRestores ==
  ASSUME NEW ptr \in Int, NEW min \in Int, NEW max \in Int, NEW lo \in Int, NEW hi \in Int,
         min <= 0, 0 <= max, lo <= hi
  PROVE  LET lo2 == IF ptr + min < lo THEN ptr + min ELSE lo
             hi2 == IF ptr + max + 1 > hi THEN ptr + max + 1 ELSE hi
         IN  WindowIn(ptr, min, max, lo2, hi2)
  BY Z3 DEF WindowIn, Acc
=============================================================================
