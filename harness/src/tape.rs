//! Replays a call history on the real `runtime::Memory<C>` and records what
//! every call returned (C09, C17).

use std::io::Write;

use hpbf::{runtime::Memory, CellType};
use serde_json::{json, Value};

use crate::galloc;

/// value tokens -> concrete cell values (token 0 is the zero cell)
fn token_value<C: CellType>(tok: i64) -> C {
    match tok {
        0 => C::ZERO,
        1 => C::ONE,
        2 => C::NEG_ONE,
        3 => C::ONE.wrapping_shl(C::BITS - 1),
        4 => C::from_u64(0x0123_4567_89ab_cdef),
        k => C::from_u64(k as u64),
    }
}

fn value_token<C: CellType>(v: C) -> i64 {
    for t in 0..5 {
        if token_value::<C>(t) == v {
            return t;
        }
    }
    let x = v.into_u64();
    if x < 1_000_000 {
        x as i64
    } else {
        -1
    }
}

fn replay<C: CellType>(req: &Value) {
    let id = req["id"].clone();
    let empty = vec![];
    let calls = req["calls"].as_array().unwrap_or(&empty);
    let mode = match req["alloc"].as_str().unwrap_or("count") {
        "guardl" => galloc::GUARD_LEFT,
        "guardr" => galloc::GUARD_RIGHT,
        "failtape" => galloc::FAIL_TAPE,
        _ => galloc::FAIL,
    };
    let fail_k = req["failK"].as_u64().map(|x| x as usize).unwrap_or(usize::MAX);
    let stream = req["stream"].as_u64().unwrap_or(0) == 1;
    let mut mem = Memory::<C>::new();
    let mut events = vec![];
    let mut refused_total = 0;
    let out = std::io::stdout();
    for call in calls {
        let op = call[0].as_str().unwrap_or("");
        let a1 = call[1].as_i64().unwrap_or(0);
        let a2 = call.get(2).and_then(|x| x.as_i64()).unwrap_or(0);
        // far arguments: call[3], call[4] count units of 2^62 cells added to a1, a2
        let q1 = call.get(3).and_then(|x| x.as_i64()).unwrap_or(0);
        let q2 = call.get(4).and_then(|x| x.as_i64()).unwrap_or(0);
        let far = |a: i64, q: i64| -> Option<isize> { isize::try_from(a as i128 + ((q as i128) << 62)).ok() };
        let (Some(x1), Some(x2)) = (far(a1, q1), far(a2, q2)) else {
            println!("{}", json!({"id": id, "error": "argument does not fit isize"}));
            return;
        };
        if stream {
            println!("{}", json!({"id": id, "pending": call}));
            let _ = out.lock().flush();
        }
        galloc::arm(mode, fail_k.wrapping_sub(refused_total_allocs()), 0);
        let ret: i64 = match op {
            "mov" => {
                mem.mov(x1);
                0
            }
            "read" => value_token(mem.read(x1)),
            "write" => {
                mem.write(x1, token_value::<C>(a2));
                0
            }
            "acc" => {
                mem.make_accessible(x1, x2);
                0
            }
            "check" => mem.check(x1) as i64,
            // pointer <-> offset conversions used by the backends: a round trip leaves the tape as it was
            "rt" => {
                let p = mem.current_ptr();
                mem.set_current_ptr(p);
                0
            }
            "checkp" => {
                let p = mem.current_ptr().wrapping_offset(x1);
                mem.check_ptr(p) as i64
            }
            _ => -99,
        };
        let allocs = galloc::armed_count();
        let failed = galloc::failed_count();
        galloc::disarm();
        add_allocs(allocs);
        refused_total += failed;
        let ev = json!([op, a1, a2, ret, allocs, failed, q1, q2]);
        if stream {
            println!("{}", json!({"id": id, "event": ev}));
            let _ = out.lock().flush();
        }
        events.push(ev);
    }
    drop(mem);
    println!("{}", json!({"id": id, "events": events, "end": "ok", "refused": refused_total}));
}

// allocation requests seen so far in this history (the fail index is global per history)
static mut SEEN: usize = 0;
fn refused_total_allocs() -> usize {
    unsafe { SEEN }
}
fn add_allocs(n: usize) {
    unsafe { SEEN += n }
}

pub fn op_tape(req: &Value) {
    unsafe { SEEN = 0 };
    std::panic::set_hook(Box::new(|_| {}));
    let r = std::panic::catch_unwind(|| match req["w"].as_u64().unwrap_or(8) {
        8 => replay::<u8>(req),
        16 => replay::<u16>(req),
        32 => replay::<u32>(req),
        _ => replay::<u64>(req),
    });
    if r.is_err() {
        galloc::disarm();
        println!("{}", json!({"id": req["id"], "end": "panic"}));
    }
}
