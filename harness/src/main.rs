//! `hv` - the conformance harness of the hpbf verification machinery.
//!
//!   hv worker            line-oriented worker: one JSON request per line on stdin,
//!                        JSON replies on stdout (see the `op_*` functions)
//!   hv gen <pop> <seed> <count>   print generated cases
//!
//! The worker never decides anything: it executes the real code and records.

mod galloc;
mod arith;
mod compile;
mod dump;
mod expr;
mod gen;
mod parse;
mod rec;
mod refint;
mod run;
mod shrink;
mod sv;
mod tape;

use std::io::{BufRead, Write};

use serde_json::{json, Value};

#[global_allocator]
static ALLOC: galloc::VAlloc = galloc::VAlloc;

fn op_ref(req: &Value) {
    let code = req["prog"].as_str().unwrap_or("");
    let input: Vec<u8> = req["input"]
        .as_array()
        .map(|a| a.iter().map(|x| x.as_u64().unwrap_or(0) as u8).collect())
        .unwrap_or_default();
    let w = req["w"].as_u64().unwrap_or(8) as u32;
    let max_steps = req["maxSteps"].as_u64().unwrap_or(5000) as usize;
    let max_ev = req["maxEv"].as_u64().unwrap_or(200) as usize;
    if !refint::balanced(code.as_bytes()) {
        println!("{}", json!({"id": req["id"], "class": "unbalanced"}));
        return;
    }
    let r = refint::run(code.as_bytes(), &input, w, max_steps, max_ev);
    let class = match r.class {
        refint::Class::Halts => "halts",
        refint::Class::Diverges => "diverges",
        refint::Class::Unknown => "unknown",
    };
    println!(
        "{}",
        json!({"id": req["id"], "class": class, "steps": r.steps, "nev": r.log.len(),
               "lo": r.lo, "hi": r.hi, "iters": r.loop_iters})
    );
}

fn worker() {
    std::panic::set_hook(Box::new(|_| {}));
    let stdin = std::io::stdin();
    for line in stdin.lock().lines() {
        let line = match line {
            Ok(l) => l,
            Err(_) => break,
        };
        if line.trim().is_empty() {
            continue;
        }
        if galloc::guarded_total() > 6000 {
            // recycle the process before the guard table / VMA count fills up;
            // the supervisor resends this request to a fresh worker
            println!("{}", json!({"bye": 1}));
            let _ = std::io::stdout().flush();
            return;
        }
        let req: Value = match serde_json::from_str(&line) {
            Ok(v) => v,
            Err(e) => {
                println!("{}", json!({"error": format!("bad request: {e}")}));
                continue;
            }
        };
        match req["op"].as_str().unwrap_or("") {
            "run" => run::op_run(&req),
            "ref" => op_ref(&req),
            "shrink" => shrink::op_shrink(&req),
            "tape" => tape::op_tape(&req),
            "dumpbc" => dump::op_dumpbc(&req),
            "dumpir" => dump::op_dumpir(&req),
            "parse" => parse::op_parse(&req),
            "render" => dump::op_render(&req),
            "compile" => compile::op_compile(&req),
            "expr" => expr::op_expr(&req),
            "sv" => sv::op_sv(&req),
            "arith" => arith::op_arith(&req),
            "ping" => println!("{}", json!({"pong": 1, "debug": cfg!(debug_assertions)})),
            other => println!("{}", json!({"error": format!("unknown op {other}")})),
        }
        let _ = std::io::stdout().flush();
    }
}

fn main() {
    let args: Vec<String> = std::env::args().collect();
    match args.get(1).map(|s| s.as_str()) {
        Some("worker") => worker(),
        Some("gen") => gen::main_gen(&args[2..]),
        _ => {
            eprintln!("usage: hv worker | hv gen <pop> <seed> <count>");
            std::process::exit(2);
        }
    }
}
