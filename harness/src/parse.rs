//! What the parsing front ends answer for a source string (C12).

use std::panic::{catch_unwind, AssertUnwindSafe};

use hpbf::{
    exec::{BaseJitCompiler, BcInterpreter, Executor, IrInterpreter},
    ir, CellType, Error, ErrorKind,
};
use serde_json::{json, Value};

fn answer<T>(name: &str, r: std::thread::Result<Result<T, Error>>) -> Value {
    match r {
        Ok(Ok(_)) => json!([name, "accept", 0]),
        Ok(Err(e)) => {
            let kind = match e.kind {
                ErrorKind::LoopNotOpened => "notopened".to_string(),
                ErrorKind::LoopNotClosed => "notclosed".to_string(),
                k => format!("{k:?}"),
            };
            json!([name, kind, e.position])
        }
        Err(_) => json!([name, "panic", 0]),
    }
}

fn answers<C: CellType>(src: &str, tag: &str) -> Vec<Value> {
    let mut out = vec![];
    out.push(answer(&format!("parse-{tag}"), catch_unwind(AssertUnwindSafe(|| ir::Program::<C>::parse(src)))));
    for level in [0u32, 2] {
        out.push(answer(
            &format!("irint-O{level}-{tag}"),
            catch_unwind(AssertUnwindSafe(|| IrInterpreter::<C>::create(src, level))),
        ));
        out.push(answer(
            &format!("bcint-O{level}-{tag}"),
            catch_unwind(AssertUnwindSafe(|| BcInterpreter::<C>::create(src, level))),
        ));
        out.push(answer(
            &format!("jit-O{level}-{tag}"),
            catch_unwind(AssertUnwindSafe(|| BaseJitCompiler::<C>::create(src, level))),
        ));
    }
    out
}

/// The in-place interpreter does not parse; it must merely never panic, whatever the text.
fn inplace_answer(src: &str) -> Value {
    use hpbf::{exec::{Executable, InplaceInterpreter}, runtime::Context};
    let r = catch_unwind(AssertUnwindSafe(|| {
        let mut cxt = Context::<u8>::new(Some(Box::new(&b"ab"[..])), Some(Box::new(std::io::sink())));
        cxt.budget = 3000;
        InplaceInterpreter::<u8>::create(src, 0).and_then(|x| x.execute_limited(&mut cxt)).map(|_| ())
    }));
    match r {
        Ok(Ok(())) => json!(["inplace", "ran", 0]),
        Ok(Err(_)) => json!(["inplace", "error-result", 0]),
        Err(_) => json!(["inplace", "panic", 0]),
    }
}

/// `{"op":"parse","id","src"}`
pub fn op_parse(req: &Value) {
    let src = req["src"].as_str().unwrap_or("");
    let mut a = answers::<u8>(src, "u8");
    a.extend(answers::<u64>(src, "u64"));
    a.push(inplace_answer(src));
    println!("{}", json!({"id": req["id"], "answers": a}));
}
