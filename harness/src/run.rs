//! Executes one case on the real hpbf code and records what happened.

use std::{
    cell::RefCell,
    io::Write as _,
    panic::{catch_unwind, AssertUnwindSafe},
    rc::Rc,
};

use hpbf::{
    exec::{BaseJitCompiler, BcInterpreter, Executable, Executor, InplaceInterpreter, IrInterpreter},
    runtime::Context,
    CellType, Error,
};
use serde_json::{json, Value};

use crate::{
    galloc,
    rec::{Ev, PlanReader, PlanWriter, Recorder},
};

#[derive(Clone)]
pub struct RunCfg {
    pub backend: String,
    pub level: u32,
    /// "exec" | "limited" | "unsafe"
    pub mode: String,
    pub budget: u64,
    pub out_fail: Option<usize>,
    pub out_fail_err: bool,
    pub in_fail: Option<usize>,
    pub in_absent: bool,
    pub out_absent: bool,
    pub pregrow: Option<(isize, isize)>,
    pub alloc: usize,
    pub fail_k: usize,
    pub fail_min: usize,
    pub stream: bool,
    /// number of times the same executor is executed (fresh context each time)
    pub repeat: usize,
    /// a program without I/O that leaves every cell 0 and the pointer where it was, run first on the
    /// same context by the in-place interpreter: the main program then meets a used, non-empty tape
    pub pre: Option<String>,
}

impl RunCfg {
    pub fn from_json(v: &Value) -> RunCfg {
        let opt = |k: &str| v.get(k).and_then(|x| x.as_i64()).filter(|&x| x >= 0).map(|x| x as usize);
        RunCfg {
            backend: v["backend"].as_str().unwrap_or("inplace").to_string(),
            level: v["level"].as_u64().unwrap_or(0) as u32,
            mode: v["mode"].as_str().unwrap_or("exec").to_string(),
            budget: v["budget"].as_u64().unwrap_or(0),
            out_fail: opt("outFail"),
            out_fail_err: v["outFailErr"].as_u64().unwrap_or(0) == 1,
            in_fail: opt("inFail"),
            in_absent: v["inAbsent"].as_u64().unwrap_or(0) == 1,
            out_absent: v["outAbsent"].as_u64().unwrap_or(0) == 1,
            pre: v.get("pre").and_then(|p| p.as_str()).map(|p| p.to_string()),
            pregrow: v.get("pregrow").and_then(|p| p.as_array()).map(|p| {
                (p[0].as_i64().unwrap() as isize, p[1].as_i64().unwrap() as isize)
            }),
            alloc: match v["alloc"].as_str().unwrap_or("sys") {
                "guardl" => galloc::GUARD_LEFT,
                "guardr" => galloc::GUARD_RIGHT,
                "fail" => galloc::FAIL,
                "failtape" => galloc::FAIL_TAPE,
                "failmmap" => galloc::FAIL_MMAP,
                _ => galloc::SYS,
            },
            fail_k: v["failK"].as_u64().unwrap_or(u64::MAX) as usize,
            fail_min: v["failMin"].as_u64().unwrap_or(0) as usize,
            stream: v["stream"].as_u64().unwrap_or(0) == 1,
            repeat: v["repeat"].as_u64().unwrap_or(1) as usize,
        }
    }
}

pub struct RunResult {
    pub log: Vec<Ev>,
    /// "ok" | "true" | "false" | "err:<kind>@<pos>" | "panic:<msg>" | "create-err:<kind>@<pos>"
    pub ret: String,
    pub fault: bool,
    pub capped: bool,
    pub allocs: usize,
    pub tape_growths: usize,
    pub alloc_failed: usize,
    /// results of the repeated executions differ from the first one
    pub repeat_differs: bool,
}

fn err_str(e: &Error) -> String {
    format!("{:?}@{}", e.kind, e.position)
}

fn panic_msg(p: Box<dyn std::any::Any + Send>) -> String {
    if let Some(s) = p.downcast_ref::<&str>() {
        s.to_string()
    } else if let Some(s) = p.downcast_ref::<String>() {
        s.clone()
    } else {
        "?".to_string()
    }
}

/// Number of unrelated entries the sink already holds when the next run starts (C13: repeated
/// executions of one executor get sinks that differ in state the program must not depend on).
pub static PREFILL: std::sync::atomic::AtomicUsize = std::sync::atomic::AtomicUsize::new(0);

fn exec_once<C: CellType, X: Executable<C>>(
    exec: &X,
    cfg: &RunCfg,
    input: &[u8],
    stream: Option<(String, usize)>,
) -> RunResult {
    let rec = Rc::new(RefCell::new(Recorder::default()));
    rec.borrow_mut().log.reserve(1024);
    let pre = PREFILL.load(std::sync::atomic::Ordering::SeqCst);
    for _ in 0..pre {
        rec.borrow_mut().log.push(Ev::InFail);
    }
    rec.borrow_mut().stream = stream;
    let reader: Option<Box<dyn std::io::Read>> = if cfg.in_absent {
        None
    } else {
        Some(Box::new(PlanReader { data: input.to_vec(), pos: 0, fail_at: cfg.in_fail, rec: rec.clone() }))
    };
    let writer: Option<Box<dyn std::io::Write>> = if cfg.out_absent {
        None
    } else {
        Some(Box::new(PlanWriter { fail_at: cfg.out_fail, fail_with_err: cfg.out_fail_err, rec: rec.clone() }))
    };
    let mut allocs = 0;
    let mut alloc_failed = 0;
    let mut tape_growths = 0;
    let ret = {
        let mut cxt = Context::<C>::new(reader, writer);
        let r = catch_unwind(AssertUnwindSafe(|| {
            galloc::arm(cfg.alloc, cfg.fail_k, cfg.fail_min);
            if let Some(pre) = &cfg.pre {
                if let Ok(e) = InplaceInterpreter::<C>::create(pre, 0) {
                    let _ = e.execute(&mut cxt);
                }
            }
            if let Some((lo, hi)) = cfg.pregrow {
                cxt.memory.make_accessible(lo, hi);
            }
            let g0 = galloc::tape_growths();
            let r = match cfg.mode.as_str() {
                "limited" => {
                    cxt.budget = cfg.budget as usize;
                    exec.execute_limited(&mut cxt).map(|b| if b { "true" } else { "false" }.to_string())
                }
                "unsafe" => unsafe { exec.execute_unsafe(&mut cxt).map(|_| "ok".to_string()) },
                _ => exec.execute(&mut cxt).map(|_| "ok".to_string()),
            };
            allocs = galloc::armed_count();
            alloc_failed = galloc::failed_count();
            tape_growths = galloc::tape_growths() - g0;
            galloc::disarm();
            r
        }));
        galloc::disarm();
        // (also after a panic: the counters keep their values until the allocator is armed again)
        allocs = galloc::armed_count();
        alloc_failed = galloc::failed_count();
        match r {
            Ok(Ok(s)) => s,
            Ok(Err(e)) => format!("err:{}", err_str(&e)),
            Err(p) => format!("panic:{}", panic_msg(p)),
        }
    };
    let rec = rec.borrow();
    RunResult {
        log: rec.log[pre.min(rec.log.len())..].to_vec(),
        ret,
        fault: rec.fault,
        capped: rec.capped,
        allocs,
        alloc_failed,
        tape_growths,
        repeat_differs: false,
    }
}

fn run_with<'c, C: CellType, X: Executor<'c, C>>(
    code: &'c str,
    cfg: &RunCfg,
    input: &[u8],
    stream: Option<(String, usize)>,
) -> RunResult {
    let created = catch_unwind(AssertUnwindSafe(|| X::create(code, cfg.level)));
    let exec = match created {
        Ok(Ok(x)) => x,
        Ok(Err(e)) => {
            return RunResult {
                log: vec![],
                ret: format!("create-err:{}", err_str(&e)),
                fault: false,
                capped: false,
                allocs: 0,
                tape_growths: 0,
                alloc_failed: 0,
                repeat_differs: false,
            }
        }
        Err(p) => {
            return RunResult {
                log: vec![],
                ret: format!("create-panic:{}", panic_msg(p)),
                fault: false,
                capped: false,
                allocs: 0,
                tape_growths: 0,
                alloc_failed: 0,
                repeat_differs: false,
            }
        }
    };
    let mut first = exec_once::<C, X>(&exec, cfg, input, stream);
    for _ in 1..cfg.repeat {
        let again = exec_once::<C, X>(&exec, cfg, input, None);
        if again.log != first.log || again.ret != first.ret {
            first.repeat_differs = true;
        }
    }
    first
}

fn repeated_with<'c, C: CellType, X: Executor<'c, C>>(
    code: &'c str,
    cfg: &RunCfg,
    input: &[u8],
    n: usize,
) -> Vec<(Vec<Ev>, String)> {
    let cfgs: Vec<RunCfg> = (0..n).map(|_| cfg.clone()).collect();
    sequence_with::<C, X>(code, &cfgs, input)
}

/// One executor, one call per configuration in `cfgs` (entry point and budget may differ from call to
/// call), each on a fresh context.
fn sequence_with<'c, C: CellType, X: Executor<'c, C>>(
    code: &'c str,
    cfgs: &[RunCfg],
    input: &[u8],
) -> Vec<(Vec<Ev>, String)> {
    let level = cfgs.first().map(|c| c.level).unwrap_or(0);
    match catch_unwind(AssertUnwindSafe(|| X::create(code, level))) {
        Ok(Ok(exec)) => cfgs
            .iter()
            .enumerate()
            .map(|(i, cfg)| {
                PREFILL.store(if i == 0 { 0 } else { 7 * i + 1 }, std::sync::atomic::Ordering::SeqCst);
                let r = exec_once::<C, X>(&exec, cfg, input, None);
                PREFILL.store(0, std::sync::atomic::Ordering::SeqCst);
                (r.log, r.ret)
            })
            .collect(),
        _ => vec![(vec![], "create-failed".to_string())],
    }
}

/// Executes one executor through a sequence of different entry points; returns every (log, result).
pub fn run_sequence(code: &str, w: u32, cfgs: &[RunCfg], input: &[u8]) -> Vec<(Vec<Ev>, String)> {
    let backend = cfgs.first().map(|c| c.backend.clone()).unwrap_or_default();
    macro_rules! go {
        ($c:ty) => {
            match backend.as_str() {
                "inplace" => sequence_with::<$c, InplaceInterpreter<$c>>(code, cfgs, input),
                "irint" => sequence_with::<$c, IrInterpreter<$c>>(code, cfgs, input),
                "bcint" => sequence_with::<$c, BcInterpreter<$c>>(code, cfgs, input),
                _ => sequence_with::<$c, BaseJitCompiler<$c>>(code, cfgs, input),
            }
        };
    }
    match w {
        8 => go!(u8),
        16 => go!(u16),
        32 => go!(u32),
        _ => go!(u64),
    }
}

/// Executes one executor `n` times on fresh contexts; returns every (log, result).
pub fn run_repeated(code: &str, w: u32, cfg: &RunCfg, input: &[u8], n: usize) -> Vec<(Vec<Ev>, String)> {
    macro_rules! go {
        ($c:ty) => {
            match cfg.backend.as_str() {
                "inplace" => repeated_with::<$c, InplaceInterpreter<$c>>(code, cfg, input, n),
                "irint" => repeated_with::<$c, IrInterpreter<$c>>(code, cfg, input, n),
                "bcint" => repeated_with::<$c, BcInterpreter<$c>>(code, cfg, input, n),
                _ => repeated_with::<$c, BaseJitCompiler<$c>>(code, cfg, input, n),
            }
        };
    }
    match w {
        8 => go!(u8),
        16 => go!(u16),
        32 => go!(u32),
        _ => go!(u64),
    }
}

fn run_backend<C: CellType>(code: &str, cfg: &RunCfg, input: &[u8], stream: Option<(String, usize)>) -> RunResult {
    match cfg.backend.as_str() {
        "inplace" => run_with::<C, InplaceInterpreter<C>>(code, cfg, input, stream),
        "irint" => run_with::<C, IrInterpreter<C>>(code, cfg, input, stream),
        "bcint" => run_with::<C, BcInterpreter<C>>(code, cfg, input, stream),
        "jit" => run_with::<C, BaseJitCompiler<C>>(code, cfg, input, stream),
        other => panic!("unknown backend {other}"),
    }
}

pub fn run_one(code: &str, w: u32, cfg: &RunCfg, input: &[u8], stream: Option<(String, usize)>) -> RunResult {
    match w {
        8 => run_backend::<u8>(code, cfg, input, stream),
        16 => run_backend::<u16>(code, cfg, input, stream),
        32 => run_backend::<u32>(code, cfg, input, stream),
        64 => run_backend::<u64>(code, cfg, input, stream),
        _ => panic!("unsupported width {w}"),
    }
}

/// Worker entry for `{"op":"run", ...}`: executes every configuration listed in
/// `runs` and prints one line per configuration (identical recordings are
/// reported by reference), then a `done` line.
pub fn op_run(req: &Value) {
    let id = req["id"].as_str().unwrap_or("").to_string();
    let code = req["prog"].as_str().unwrap_or("").to_string();
    let w = req["w"].as_u64().unwrap_or(8) as u32;
    let input: Vec<u8> = req["input"]
        .as_array()
        .map(|a| a.iter().map(|x| x.as_u64().unwrap_or(0) as u8).collect())
        .unwrap_or_default();
    let empty = vec![];
    let runs = req["runs"].as_array().unwrap_or(&empty);
    // Optional scheduling aid: the native interpreter says whether the canonical
    // run is short enough to be replayed by TLC and whether all recordings look
    // alike.  Nothing here is a verdict.
    let mut refinfo: Option<crate::refint::RefRun> = None;
    if let Some(sc) = req.get("screen") {
        let ms = sc["maxSteps"].as_u64().unwrap_or(5000) as usize;
        let me = sc["maxEv"].as_u64().unwrap_or(200) as usize;
        // a case may carry its text without comment padding for the scheduling run (`specProg`): the padded
        // text is what the back ends get, the native interpreter would only count the padding as steps
        let screen_code = req["specProg"].as_str().unwrap_or(&code).to_string();
        if !crate::refint::balanced(screen_code.as_bytes()) {
            println!("{}", json!({"id": id, "done": 1, "refclass": "unbalanced"}));
            return;
        }
        let r = crate::refint::run(screen_code.as_bytes(), &input, w, ms, me);
        if r.class != crate::refint::Class::Halts && sc["runAnyway"].as_u64().unwrap_or(0) == 0 {
            let class = if r.class == crate::refint::Class::Diverges { "diverges" } else { "unknown" };
            println!("{}", json!({"id": id, "done": 1, "refclass": class, "refsteps": r.steps,
                "refnev": r.log.len(), "lo": r.lo, "hi": r.hi, "iters": r.loop_iters}));
            return;
        }
        refinfo = Some(r);
    }
    let mut agree = true;
    let mut seen: Vec<(Vec<Ev>, String, bool, usize)> = vec![];
    let out = std::io::stdout();
    for (i, rv) in runs.iter().enumerate() {
        let cfg = RunCfg::from_json(rv);
        // announce, so that the supervisor can attribute a crash or a hang
        println!("{}", json!({"id": id, "run": i, "start": 1}));
        let _ = out.lock().flush();
        let stream = if cfg.stream { Some((id.clone(), i)) } else { None };
        let r = run_one(&code, w, &cfg, &input, stream);
        if let Some(rf) = &refinfo {
            if r.log != rf.log || r.ret != "ok" || r.fault {
                agree = false;
            }
        }
        let key = (r.log.clone(), r.ret.clone(), r.fault, 0usize);
        let mut line = json!({"id": id, "run": i, "ret": r.ret, "fault": r.fault as u8,
            "capped": r.capped as u8, "allocs": r.allocs, "allocFailed": r.alloc_failed, "tapeGrowths": r.tape_growths,
            "repeatDiffers": r.repeat_differs as u8});
        if let Some(j) = seen.iter().position(|s| s.0 == key.0 && s.1 == key.1 && s.2 == key.2) {
            line["same"] = json!(seen[j].3);
        } else {
            line["log"] = Value::Array(r.log.iter().map(|e| e.to_json()).collect());
            seen.push((key.0, key.1, key.2, i));
        }
        println!("{line}");
        let _ = out.lock().flush();
    }
    if let Some(rf) = &refinfo {
        let class = match rf.class {
            crate::refint::Class::Halts => "halts",
            crate::refint::Class::Diverges => "diverges",
            crate::refint::Class::Unknown => "unknown",
        };
        println!("{}", json!({"id": id, "done": 1, "refclass": class, "refsteps": rf.steps,
            "refnev": rf.log.len(), "lo": rf.lo, "hi": rf.hi, "iters": rf.loop_iters, "agree": agree as u8}));
    } else {
        println!("{}", json!({"id": id, "done": 1}));
    }
    let _ = out.lock().flush();
}
