//! Replays construction histories through the public `ir::Expr` API and records
//! the denotation of every result at a fixed list of assignments (C15).

use std::collections::HashMap;

use hpbf::{ir::Expr, CellType};
use serde_json::{json, Value};

use crate::dump::limbs;

fn num(v: &Value) -> u64 {
    v.as_str().and_then(|s| s.parse::<u64>().ok()).or_else(|| v.as_u64()).unwrap_or(0)
}

fn replay<C: CellType>(req: &Value) -> Value {
    let empty = vec![];
    let sigma: Vec<HashMap<isize, C>> = req["sigma"]
        .as_array()
        .unwrap_or(&empty)
        .iter()
        .map(|asg| {
            asg.as_array()
                .unwrap()
                .iter()
                .map(|p| (p[0].as_i64().unwrap() as isize, C::from_u64(num(&p[1]))))
                .collect()
        })
        .collect();
    let den = |e: &Expr<C>| -> Value {
        Value::Array(
            sigma
                .iter()
                .map(|asg| limbs(e.evaluate(|v| *asg.get(&v).unwrap_or(&C::ZERO))))
                .collect(),
        )
    };
    let zero_den = Value::Array(sigma.iter().map(|_| limbs(C::ZERO)).collect());
    let mut store: HashMap<i64, Expr<C>> = HashMap::new();
    let mut events = vec![];
    for call in req["calls"].as_array().unwrap_or(&empty) {
        let op = call["op"].as_str().unwrap_or("");
        let id = call["id"].as_i64().unwrap_or(0);
        let a = call["a"].as_i64().unwrap_or(0);
        let b = call["b"].as_i64().unwrap_or(0);
        let cin = C::from_u64(num(&call["c"]));
        let mut ev = json!({"op": op, "id": id, "a": a, "b": b, "c": limbs(cin), "none": 0,
                            "subst": call.get("subst").cloned().unwrap_or(json!([])), "vals": zero_den.clone()});
        let mut result: Option<Expr<C>> = None;
        let mut none = false;
        match op {
            "val" => result = Some(Expr::val(cin)),
            "var" => result = Some(Expr::var(a as isize)),
            "add" => result = Some(store[&a].add(&store[&b])),
            "mul" => result = Some(store[&a].mul(&store[&b])),
            "neg" => result = Some(store[&a].neg()),
            "half" => match store[&a].half() {
                Some(r) => result = Some(r),
                None => none = true,
            },
            "normalize" => result = Some(store[&a].clone().normalize()),
            "clone" => result = Some(store[&a].clone()),
            "subst" => {
                let map: HashMap<isize, i64> = call["subst"]
                    .as_array()
                    .unwrap_or(&empty)
                    .iter()
                    .map(|p| (p[0].as_i64().unwrap() as isize, p[1].as_i64().unwrap()))
                    .collect();
                match store[&a].symb_evaluate(|v| Some(map.get(&v).map(|i| store[i].clone()).unwrap_or_else(|| Expr::var(v)))) {
                    Some(r) => result = Some(r),
                    None => none = true,
                }
            }
            "inc_of" => match store[&a].inc_of(b as isize) {
                Some(r) => result = Some(r),
                None => none = true,
            },
            "prod_inc_of" => match store[&a].prod_inc_of(b as isize) {
                Some((r, m)) => {
                    ev["c"] = limbs(m);
                    result = Some(r)
                }
                None => none = true,
            },
            "const_inc_of" => match store[&a].const_inc_of(b as isize) {
                Some(c) => ev["c"] = limbs(c),
                None => none = true,
            },
            "prod_of" => match store[&a].prod_of(b as isize) {
                Some(r) => result = Some(r),
                None => none = true,
            },
            "constant" => match store[&a].constant() {
                Some(c) => ev["c"] = limbs(c),
                None => none = true,
            },
            "constant_part" => ev["c"] = limbs(store[&a].constant_part()),
            "identity" => match store[&a].identity() {
                Some(v) => ev["b"] = json!(v),
                None => none = true,
            },
            "is_zero" => none = !store[&a].is_zero(),
            "eq" => none = store[&a] != store[&b],
            _ => {}
        }
        if none {
            ev["none"] = json!(1);
        }
        if let Some(r) = result {
            ev["vals"] = den(&r);
            store.insert(id, r);
        }
        events.push(ev);
    }
    json!({"id": req["id"], "events": events, "end": "ok"})
}

/// `{"op":"expr","id","w","sigma":[[[var,"value"],..],..],"calls":[..]}`
pub fn op_expr(req: &Value) {
    let r = std::panic::catch_unwind(|| match req["w"].as_u64().unwrap_or(8) {
        8 => replay::<u8>(req),
        16 => replay::<u16>(req),
        32 => replay::<u32>(req),
        _ => replay::<u64>(req),
    });
    match r {
        Ok(v) => println!("{v}"),
        Err(_) => println!("{}", json!({"id": req["id"], "events": [], "end": "panic"})),
    }
}
