//! A plain native Brainfuck interpreter.  It is NOT an oracle: no verdict is ever
//! derived from it.  It only schedules work - it tells the generators which
//! cases have short canonical runs (so that TLC can replay them) and lets the
//! pre-screen spot backends that disagree with each other.

use std::collections::HashMap;

use crate::rec::Ev;

#[derive(Debug, Clone, Copy, PartialEq, Eq)]
pub enum Class {
    Halts,
    Diverges,
    Unknown,
}

pub struct RefRun {
    pub class: Class,
    pub steps: usize,
    pub log: Vec<Ev>,
    pub lo: i64,
    pub hi: i64,
    pub loop_iters: usize,
}

pub fn balanced(code: &[u8]) -> bool {
    let mut d = 0i64;
    for &c in code {
        if c == b'[' {
            d += 1;
        } else if c == b']' {
            d -= 1;
            if d < 0 {
                return false;
            }
        }
    }
    d == 0
}

pub fn run(code: &[u8], input: &[u8], bits: u32, max_steps: usize, max_ev: usize) -> RefRun {
    let mut jump = vec![0usize; code.len()];
    let mut st = vec![];
    for (i, &c) in code.iter().enumerate() {
        if c == b'[' {
            st.push(i)
        } else if c == b']' {
            let j = st.pop().unwrap();
            jump[i] = j;
            jump[j] = i;
        }
    }
    let mask: u64 = if bits == 64 { u64::MAX } else { (1u64 << bits) - 1 };
    let mut tape: HashMap<i64, u64> = HashMap::new();
    let (mut p, mut pc, mut ip, mut steps) = (0i64, 0usize, 0usize, 0usize);
    let (mut lo, mut hi) = (0i64, 0i64);
    let mut log = vec![];
    let mut loop_iters = 0;
    // Brent cycle detection on (pc, p, tape, min(ip, len))
    let mut snap: Option<(usize, i64, Vec<(i64, u64)>, usize)> = None;
    let mut snap_at = 1usize;
    let norm = |t: &HashMap<i64, u64>| {
        let mut v: Vec<(i64, u64)> = t.iter().filter(|(_, &v)| v != 0).map(|(&k, &v)| (k, v)).collect();
        v.sort();
        v
    };
    let mut class = Class::Halts;
    while pc < code.len() {
        if steps >= max_steps || log.len() >= max_ev {
            class = Class::Unknown;
            break;
        }
        steps += 1;
        let v = *tape.get(&p).unwrap_or(&0);
        match code[pc] {
            b'+' => {
                tape.insert(p, v.wrapping_add(1) & mask);
            }
            b'-' => {
                tape.insert(p, v.wrapping_sub(1) & mask);
            }
            b'>' => p += 1,
            b'<' => p -= 1,
            b'.' => log.push(Ev::Out(v as u8)),
            b',' => {
                if ip < input.len() {
                    tape.insert(p, input[ip] as u64 & mask);
                    log.push(Ev::In(input[ip] as i32));
                } else {
                    tape.insert(p, 0);
                    log.push(Ev::In(-1));
                }
                ip += 1;
            }
            b'[' => {
                if v == 0 {
                    pc = jump[pc];
                }
            }
            b']' => {
                if v != 0 {
                    pc = jump[pc];
                    loop_iters += 1;
                }
            }
            _ => {}
        }
        pc += 1;
        lo = lo.min(p);
        hi = hi.max(p);
        if steps.is_power_of_two() || snap.as_ref().map_or(false, |s| s.0 == pc && s.1 == p) {
            let cfg = (pc, p, norm(&tape), ip.min(input.len()));
            if snap.as_ref() == Some(&cfg) {
                class = Class::Diverges;
                break;
            }
            if steps >= snap_at {
                snap = Some(cfg);
                snap_at = steps * 2;
            }
        }
    }
    RefRun { class, steps, log, lo, hi, loop_iters }
}
