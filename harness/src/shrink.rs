//! Delta-debugging of a case on which one configuration disagrees with the
//! native scheduling interpreter.  Pure convenience: the shrunk case is sent
//! to TLC like any other, and only a TLC rejection counts.

use serde_json::{json, Value};

use crate::{refint, run};

fn disagrees(code: &str, w: u32, input: &[u8], cfg: &run::RunCfg, max_steps: usize) -> bool {
    if !refint::balanced(code.as_bytes()) {
        return false;
    }
    let r = refint::run(code.as_bytes(), input, w, max_steps, 250);
    if r.class != refint::Class::Halts {
        return false;
    }
    let got = run::run_one(code, w, cfg, input, None);
    got.ret != "ok" || got.log != r.log
}

fn matching(code: &[u8], i: usize) -> usize {
    let mut d = 0;
    let mut j = i;
    loop {
        if code[j] == b'[' {
            d += 1
        } else if code[j] == b']' {
            d -= 1;
            if d == 0 {
                return j;
            }
        }
        j += 1;
    }
}

pub fn op_shrink(req: &Value) {
    let mut code = req["prog"].as_str().unwrap_or("").to_string();
    let w = req["w"].as_u64().unwrap_or(8) as u32;
    let mut input: Vec<u8> = req["input"]
        .as_array()
        .map(|a| a.iter().map(|x| x.as_u64().unwrap_or(0) as u8).collect())
        .unwrap_or_default();
    let cfg = run::RunCfg::from_json(&req["run"]);
    let max_steps = req["maxSteps"].as_u64().unwrap_or(5000) as usize;
    let mut evals = 0usize;
    let max_evals = req["maxEvals"].as_u64().unwrap_or(6000) as usize;
    if !disagrees(&code, w, &input, &cfg, max_steps) {
        println!("{}", json!({"id": req["id"], "shrunk": 0}));
        return;
    }
    loop {
        let mut changed = false;
        // whole loops
        let mut i = 0;
        while i < code.len() && evals < max_evals {
            if code.as_bytes()[i] == b'[' {
                let j = matching(code.as_bytes(), i);
                let cand = format!("{}{}", &code[..i], &code[j + 1..]);
                evals += 1;
                if disagrees(&cand, w, &input, &cfg, max_steps) {
                    code = cand;
                    changed = true;
                    continue;
                }
            }
            i += 1;
        }
        // bracket pairs and single commands
        let mut i = 0;
        while i < code.len() && evals < max_evals {
            let b = code.as_bytes()[i];
            let cand = if b == b'[' {
                let j = matching(code.as_bytes(), i);
                let mut t = code.clone();
                t.remove(j);
                t.remove(i);
                t
            } else if b == b']' {
                i += 1;
                continue;
            } else {
                let mut t = code.clone();
                t.remove(i);
                t
            };
            evals += 1;
            if disagrees(&cand, w, &input, &cfg, max_steps) {
                code = cand;
                changed = true;
            } else {
                i += 1;
            }
        }
        // cancelling pairs
        let mut i = 0;
        while i + 1 < code.len() && evals < max_evals {
            let (a, b) = (code.as_bytes()[i], code.as_bytes()[i + 1]);
            if matches!((a, b), (b'<', b'>') | (b'>', b'<') | (b'+', b'-') | (b'-', b'+')) {
                let cand = format!("{}{}", &code[..i], &code[i + 2..]);
                evals += 1;
                if disagrees(&cand, w, &input, &cfg, max_steps) {
                    code = cand;
                    changed = true;
                    i = i.saturating_sub(1);
                    continue;
                }
            }
            i += 1;
        }
        // input: drop bytes, then lower them
        let mut k = 0;
        while k < input.len() && evals < max_evals {
            let mut t = input.clone();
            t.remove(k);
            evals += 1;
            if disagrees(&code, w, &t, &cfg, max_steps) {
                input = t;
                changed = true;
            } else {
                k += 1;
            }
        }
        for k in 0..input.len() {
            for v in [0u8, 1, 2, 3] {
                if input[k] > v && evals < max_evals {
                    let mut t = input.clone();
                    t[k] = v;
                    evals += 1;
                    if disagrees(&code, w, &t, &cfg, max_steps) {
                        input = t;
                        changed = true;
                        break;
                    }
                }
            }
        }
        if !changed || evals >= max_evals {
            break;
        }
    }
    println!("{}", json!({"id": req["id"], "shrunk": 1, "prog": code, "input": input, "evals": evals}));
}
