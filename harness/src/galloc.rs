//! Global allocator of the harness worker.
//!
//! While a case is *armed* every allocation request is served according to the
//! selected mode:
//!   * `Sys`        - the system allocator (default)
//!   * `GuardLeft`  - every allocation is its own `mmap`, the first byte of the
//!                    allocation is flush against a `PROT_NONE` page below it
//!   * `GuardRight` - same, the byte after the allocation is a `PROT_NONE` page
//!   * `Fail`       - the k-th armed allocation of at least `min` bytes returns null
//! Freed guarded regions are turned into `PROT_NONE` (never unmapped, so that the
//! address cannot be reused and a use after free faults).
//!
//! The worker is single threaded; the bookkeeping uses a fixed table so that the
//! allocator never calls itself.

use std::alloc::{GlobalAlloc, Layout, System};
use std::sync::atomic::{AtomicBool, AtomicUsize, Ordering::SeqCst};

pub const SYS: usize = 0;
pub const GUARD_LEFT: usize = 1;
pub const GUARD_RIGHT: usize = 2;
pub const FAIL: usize = 3;
/// like FAIL, but only tape-growth requests (hook IN_TAPE_GROWTH) are counted
pub const FAIL_TAPE: usize = 4;

/// the k-th `mmap` asking for executable memory is refused (the JIT's code region)
pub const FAIL_MMAP: usize = 5;

pub struct VAlloc;

/// `mmap` of the process, interposed: the baseline JIT maps its code region directly, so a refusal
/// by the operating system cannot be played through the global allocator.  Everything is passed on
/// to the system call except, in mode FAIL_MMAP while armed, the k-th request for executable memory.
#[no_mangle]
pub unsafe extern "C" fn mmap(
    addr: *mut libc::c_void,
    len: libc::size_t,
    prot: libc::c_int,
    flags: libc::c_int,
    fd: libc::c_int,
    off: libc::off_t,
) -> *mut libc::c_void {
    if ARMED.load(SeqCst) && MODE.load(SeqCst) == FAIL_MMAP && (prot & libc::PROT_EXEC) != 0 {
        let n = COUNT.fetch_add(1, SeqCst);
        if n == FAIL_K.load(SeqCst) {
            FAILED.fetch_add(1, SeqCst);
            let note = b"{\"refusednote\":1}\n";
            libc::write(1, note.as_ptr() as *const _, note.len());
            *libc::__errno_location() = libc::ENOMEM;
            return libc::MAP_FAILED;
        }
    }
    let r = libc::syscall(libc::SYS_mmap, addr, len, prot, flags, fd, off);
    if (-4095..0).contains(&r) {
        *libc::__errno_location() = -r as libc::c_int;
        return libc::MAP_FAILED;
    }
    r as *mut libc::c_void
}

static ARMED: AtomicBool = AtomicBool::new(false);
static MODE: AtomicUsize = AtomicUsize::new(SYS);
static FAIL_K: AtomicUsize = AtomicUsize::new(usize::MAX);
static FAIL_MIN: AtomicUsize = AtomicUsize::new(0);
static COUNT: AtomicUsize = AtomicUsize::new(0);
static FAILED: AtomicUsize = AtomicUsize::new(0);
static GUARDED_TOTAL: AtomicUsize = AtomicUsize::new(0);
static LIVE: AtomicUsize = AtomicUsize::new(0);
static TAPE_GROWTHS: AtomicUsize = AtomicUsize::new(0);

const PAGE: usize = 4096;
const SLOTS: usize = 8192;
#[derive(Clone, Copy)]
struct Slot {
    ptr: usize,
    base: usize,
    len: usize,
}
static mut TABLE: [Slot; SLOTS] = [Slot { ptr: 0, base: 0, len: 0 }; SLOTS];

pub fn arm(mode: usize, fail_k: usize, fail_min: usize) {
    MODE.store(mode, SeqCst);
    FAIL_K.store(fail_k, SeqCst);
    FAIL_MIN.store(fail_min, SeqCst);
    COUNT.store(0, SeqCst);
    FAILED.store(0, SeqCst);
    ARMED.store(true, SeqCst);
}

pub fn disarm() {
    ARMED.store(false, SeqCst);
}

/// Number of armed allocation requests of at least `fail_min` bytes seen since `arm`.
pub fn armed_count() -> usize {
    COUNT.load(SeqCst)
}

/// Number of requests answered with null since `arm`.
pub fn failed_count() -> usize {
    FAILED.load(SeqCst)
}

/// Number of tape (re)allocations (hook IN_TAPE_GROWTH) since the process started, while armed.
pub fn tape_growths() -> usize {
    TAPE_GROWTHS.load(SeqCst)
}

fn note_growth() {
    if ARMED.load(SeqCst) && hpbf::verif::IN_TAPE_GROWTH.load(SeqCst) {
        TAPE_GROWTHS.fetch_add(1, SeqCst);
    }
}

pub fn guarded_total() -> usize {
    GUARDED_TOTAL.load(SeqCst)
}

unsafe fn guard_alloc(layout: Layout, right: bool) -> *mut u8 {
    let size = layout.size().max(1);
    let align = layout.align().max(1);
    let data = (size + PAGE - 1) / PAGE * PAGE;
    let len = data + 2 * PAGE;
    let base = libc::mmap(
        std::ptr::null_mut(),
        len,
        libc::PROT_READ | libc::PROT_WRITE,
        libc::MAP_ANONYMOUS | libc::MAP_PRIVATE,
        -1,
        0,
    );
    if base as isize == -1 {
        return std::ptr::null_mut();
    }
    let base = base as usize;
    libc::mprotect(base as *mut _, PAGE, libc::PROT_NONE);
    libc::mprotect((base + PAGE + data) as *mut _, PAGE, libc::PROT_NONE);
    let ptr = if right {
        (base + PAGE + data - size) & !(align - 1)
    } else {
        base + PAGE
    };
    #[allow(static_mut_refs)]
    for slot in TABLE.iter_mut() {
        if slot.ptr == 0 {
            *slot = Slot { ptr, base, len };
            LIVE.fetch_add(1, SeqCst);
            GUARDED_TOTAL.fetch_add(1, SeqCst);
            return ptr as *mut u8;
        }
    }
    // table full: fall back to an unguarded allocation
    libc::munmap(base as *mut _, len);
    System.alloc(layout)
}

unsafe fn guard_free(ptr: *mut u8) -> bool {
    if LIVE.load(SeqCst) == 0 {
        return false;
    }
    #[allow(static_mut_refs)]
    for slot in TABLE.iter_mut() {
        if slot.ptr == ptr as usize {
            libc::mprotect(slot.base as *mut _, slot.len, libc::PROT_NONE);
            libc::madvise(slot.base as *mut _, slot.len, libc::MADV_DONTNEED);
            slot.ptr = 0;
            LIVE.fetch_sub(1, SeqCst);
            return true;
        }
    }
    false
}

unsafe impl GlobalAlloc for VAlloc {
    unsafe fn alloc(&self, layout: Layout) -> *mut u8 {
        note_growth();
        if ARMED.load(SeqCst) {
            match MODE.load(SeqCst) {
                GUARD_LEFT => return guard_alloc(layout, false),
                GUARD_RIGHT => return guard_alloc(layout, true),
                m @ (FAIL | FAIL_TAPE) => {
                    let counted = m == FAIL || hpbf::verif::IN_TAPE_GROWTH.load(SeqCst);
                    if counted && layout.size() >= FAIL_MIN.load(SeqCst) {
                        let n = COUNT.fetch_add(1, SeqCst);
                        if n == FAIL_K.load(SeqCst) {
                            FAILED.fetch_add(1, SeqCst);
                            // tell the supervisor (the process may not survive to report it)
                            let note = b"{\"refusednote\":1}\n";
                            libc::write(1, note.as_ptr() as *const _, note.len());
                            return std::ptr::null_mut();
                        }
                    }
                }
                _ => {}
            }
        }
        System.alloc(layout)
    }

    unsafe fn alloc_zeroed(&self, layout: Layout) -> *mut u8 {
        if ARMED.load(SeqCst) && MODE.load(SeqCst) != SYS {
            let p = self.alloc(layout);
            if !p.is_null() && matches!(MODE.load(SeqCst), FAIL | FAIL_TAPE) {
                std::ptr::write_bytes(p, 0, layout.size());
            }
            // guarded regions come zeroed from mmap
            return p;
        }
        note_growth();
        System.alloc_zeroed(layout)
    }

    unsafe fn dealloc(&self, ptr: *mut u8, layout: Layout) {
        if !guard_free(ptr) {
            System.dealloc(ptr, layout)
        }
    }

    unsafe fn realloc(&self, ptr: *mut u8, layout: Layout, new_size: usize) -> *mut u8 {
        let armed_special = ARMED.load(SeqCst) && MODE.load(SeqCst) != SYS;
        let guarded = LIVE.load(SeqCst) != 0 && {
            #[allow(static_mut_refs)]
            TABLE.iter().any(|s| s.ptr == ptr as usize)
        };
        if !armed_special && !guarded {
            return System.realloc(ptr, layout, new_size);
        }
        let new_layout = Layout::from_size_align_unchecked(new_size, layout.align());
        let new_ptr = self.alloc(new_layout);
        if !new_ptr.is_null() {
            std::ptr::copy_nonoverlapping(ptr, new_ptr, layout.size().min(new_size));
            self.dealloc(ptr, layout);
        }
        new_ptr
    }
}
