//! Seeded program populations (DESIGN.md section 3).  `hv gen <pop> <seed> <count>`
//! prints one JSON case per line: {"pop","prog","input"}.
//!
//!   rnd  random token soup with balanced brackets
//!   S    structured programs over a macro-op grammar (variables at fixed cells)
//!   N    dependency networks for the instruction selector / value numbering
//!   T    tape roamers (far moves, movers, scans, revisits)
//!   D    divergent families
//!   M    mutants of given seed programs (read from stdin, one program per line)

use serde_json::json;

pub struct Rng(pub u64);
impl Rng {
    pub fn new(seed: u64) -> Rng {
        let mut r = Rng(seed.wrapping_mul(0x9E3779B97F4A7C15) ^ 0xD1B54A32D192ED03 | 1);
        for _ in 0..4 {
            r.next();
        }
        r
    }
    pub fn next(&mut self) -> u64 {
        self.0 ^= self.0 << 13;
        self.0 ^= self.0 >> 7;
        self.0 ^= self.0 << 17;
        self.0
    }
    pub fn below(&mut self, n: u64) -> u64 {
        (self.next() >> 11) % n
    }
    pub fn chance(&mut self, n: u64) -> bool {
        self.below(n) == 0
    }
    pub fn pick<'a, T>(&mut self, xs: &'a [T]) -> &'a T {
        &xs[self.below(xs.len() as u64) as usize]
    }
}

fn rep(out: &mut String, c: char, n: u64) {
    for _ in 0..n {
        out.push(c);
    }
}

fn go(out: &mut String, cur: &mut i32, to: i32) {
    while *cur < to {
        out.push('>');
        *cur += 1;
    }
    while *cur > to {
        out.push('<');
        *cur -= 1;
    }
}

// ---------------------------------------------------------------- rnd
fn gen_body(r: &mut Rng, depth: u32, out: &mut String, budget: &mut i32) {
    let n = 1 + r.below(5);
    for _ in 0..n {
        if *budget <= 0 {
            return;
        }
        *budget -= 1;
        match r.below(14) {
            0 | 1 => rep(out, '+', 1 + r.below(4)),
            2 => rep(out, '-', 1 + r.below(4)),
            3 => out.push('.'),
            4 => out.push(','),
            5 | 6 => {
                let d = 1 + r.below(3);
                let (a, b) = if r.chance(2) { ('>', '<') } else { ('<', '>') };
                rep(out, a, d);
                let c = if r.chance(3) { '-' } else { '+' };
                rep(out, c, 1 + r.below(3));
                if r.chance(5) {
                    out.push('.');
                }
                rep(out, b, d);
            }
            7 | 8 | 9 if depth < 3 => {
                out.push('[');
                let dec = if r.chance(6) { 1 + r.below(3) } else { 1 };
                let c = if r.chance(8) { '+' } else { '-' };
                if r.chance(2) {
                    rep(out, c, dec);
                    gen_body(r, depth + 1, out, budget);
                } else {
                    gen_body(r, depth + 1, out, budget);
                    rep(out, c, dec);
                }
                out.push(']');
            }
            10 if depth < 3 => {
                out.push('[');
                gen_body(r, depth + 1, out, budget);
                out.push_str("[-]]");
            }
            11 => out.push_str(if r.chance(2) { "[-]" } else { "[+]" }),
            12 => {
                if r.chance(3) {
                    out.push_str(if r.chance(2) { "[>]" } else { "[<]" });
                } else {
                    out.push(if r.chance(2) { '>' } else { '<' });
                }
            }
            _ => out.push(if r.chance(2) { '>' } else { '<' }),
        }
    }
}

fn gen_rnd(r: &mut Rng) -> String {
    let mut code = String::new();
    let mut budget = 4 + r.below(20) as i32;
    if r.chance(2) {
        code.push_str(",>,>,<<");
    }
    gen_body(r, 0, &mut code, &mut budget);
    code.push_str(".>.>.<<<.");
    code
}

/// dst += a * b, preserving a and b (b may equal a: then a copy in t2 is used).
/// Uses temporaries t0, t1, t2 which must be zero before and are zero afterwards.
fn mul_acc(out: &mut String, cur: &mut i32, dst: i32, a: i32, b: i32, t0: i32, t1: i32, t2: i32) {
    let bb = if a == b {
        // t2 = a (preserving a via t0)
        go(out, cur, a);
        out.push_str("[-");
        go(out, cur, t2);
        out.push('+');
        go(out, cur, t0);
        out.push('+');
        go(out, cur, a);
        out.push(']');
        go(out, cur, t0);
        out.push_str("[-");
        go(out, cur, a);
        out.push('+');
        go(out, cur, t0);
        out.push(']');
        t2
    } else {
        b
    };
    go(out, cur, a);
    out.push_str("[-");
    go(out, cur, t0);
    out.push('+');
    go(out, cur, bb);
    out.push_str("[-");
    go(out, cur, dst);
    out.push('+');
    go(out, cur, t1);
    out.push('+');
    go(out, cur, bb);
    out.push(']');
    go(out, cur, t1);
    out.push_str("[-");
    go(out, cur, bb);
    out.push('+');
    go(out, cur, t1);
    out.push(']');
    go(out, cur, a);
    out.push(']');
    go(out, cur, t0);
    out.push_str("[-");
    go(out, cur, a);
    out.push('+');
    go(out, cur, t0);
    out.push(']');
    if a == b {
        go(out, cur, t2);
        out.push_str("[-]");
    }
}

// ---------------------------------------------------------------- S
const NV: i32 = 5;
fn gen_struct(r: &mut Rng, depth: u32, out: &mut String, cur: &mut i32, budget: &mut i32) {
    let n = 1 + r.below(4);
    for _ in 0..n {
        if *budget <= 0 {
            return;
        }
        *budget -= 1;
        let a = r.below(NV as u64) as i32;
        let mut b = r.below(NV as u64) as i32;
        if b == a {
            b = (a + 1) % NV;
        }
        let t = NV + r.below(2) as i32;
        match r.below(17) {
            0 => {
                go(out, cur, a);
                let c = if r.chance(3) { '-' } else { '+' };
                rep(out, c, 1 + r.below(3));
            }
            1 => {
                go(out, cur, a);
                out.push('.');
            }
            2 => {
                go(out, cur, a);
                out.push(',');
            }
            3 => {
                go(out, cur, a);
                out.push_str("[-]");
            }
            4 => {
                // move: a += k*b; b = 0
                go(out, cur, b);
                out.push_str("[-");
                go(out, cur, a);
                let k = 1 + r.below(3);
                let c = if r.chance(4) { '-' } else { '+' };
                rep(out, c, k);
                go(out, cur, b);
                out.push(']');
            }
            5 => {
                // add preserving: a += b via temp t
                go(out, cur, b);
                out.push_str("[-");
                go(out, cur, a);
                out.push('+');
                go(out, cur, t);
                out.push('+');
                go(out, cur, b);
                out.push(']');
                go(out, cur, t);
                out.push_str("[-");
                go(out, cur, b);
                out.push('+');
                go(out, cur, t);
                out.push(']');
            }
            6 => {
                // set a = b
                go(out, cur, a);
                out.push_str("[-]");
                go(out, cur, b);
                out.push_str("[-");
                go(out, cur, a);
                out.push('+');
                go(out, cur, t);
                out.push('+');
                go(out, cur, b);
                out.push(']');
                go(out, cur, t);
                out.push_str("[-");
                go(out, cur, b);
                out.push('+');
                go(out, cur, t);
                out.push(']');
            }
            7 | 8 if depth < 2 => {
                // counted loop on a
                go(out, cur, a);
                out.push('[');
                let first = r.chance(2);
                let step = if r.chance(5) { 1 + r.below(3) } else { 1 };
                if first {
                    rep(out, '-', step);
                }
                gen_struct(r, depth + 1, out, cur, budget);
                go(out, cur, a);
                if !first {
                    rep(out, '-', step);
                }
                out.push(']');
            }
            9 if depth < 2 => {
                // if a { ... } (destroys a)
                go(out, cur, a);
                out.push('[');
                gen_struct(r, depth + 1, out, cur, budget);
                go(out, cur, a);
                out.push_str("[-]]");
            }
            10 if depth < 2 => {
                // while a (body may change a arbitrarily)
                go(out, cur, a);
                out.push('[');
                gen_struct(r, depth + 1, out, cur, budget);
                go(out, cur, a);
                out.push(']');
            }
            11 => {
                // scale: a *= k (via temp t): t = a*k; a = t
                let k = 2 + r.below(3);
                go(out, cur, a);
                out.push_str("[-");
                go(out, cur, t);
                rep(out, '+', k);
                go(out, cur, a);
                out.push(']');
                go(out, cur, t);
                out.push_str("[-");
                go(out, cur, a);
                out.push('+');
                go(out, cur, t);
                out.push(']');
            }
            12 if depth < 2 => {
                // constant trip count loop: counter in temp cell NV+2
                let cnt = NV + 2;
                go(out, cur, cnt);
                rep(out, '+', 1 + r.below(4));
                out.push('[');
                out.push('-');
                gen_struct(r, depth + 1, out, cur, budget);
                go(out, cur, cnt);
                out.push(']');
            }
            14 | 15 => {
                // dst += b * c (c == b: a square), possibly followed by clearing an operand
                let c = if r.chance(3) { b } else { r.below(NV as u64) as i32 };
                if a != b && a != c {
                    mul_acc(out, cur, a, b, c, NV, NV + 1, NV + 3);
                    if r.chance(3) {
                        go(out, cur, b);
                        out.push_str("[-]");
                    }
                }
            }
            13 if depth < 2 && r.chance(3) => {
                // unbalanced loop / scan
                go(out, cur, a);
                out.push_str(if r.chance(2) { "[>]" } else { "[<]" });
                // pointer is now unknown to the generator; keep `cur` as is
            }
            _ => {
                go(out, cur, a);
                out.push(if r.chance(2) { '+' } else { '-' });
            }
        }
    }
}

fn gen_s(r: &mut Rng) -> String {
    let mut code = String::new();
    let mut cur = 0;
    let mut budget = 4 + r.below(20) as i32;
    for i in 0..NV {
        go(&mut code, &mut cur, i);
        if !r.chance(3) {
            code.push(',');
        } else {
            rep(&mut code, '+', r.below(4));
        }
    }
    gen_struct(r, 0, &mut code, &mut cur, &mut budget);
    for i in 0..NV + 4 {
        go(&mut code, &mut cur, i);
        code.push('.');
    }
    code
}

// ---------------------------------------------------------------- N
fn add_preserving(out: &mut String, cur: &mut i32, dst: i32, src: i32, t: i32, minus: bool) {
    go(out, cur, src);
    out.push_str("[-");
    go(out, cur, dst);
    out.push(if minus { '-' } else { '+' });
    go(out, cur, t);
    out.push('+');
    go(out, cur, src);
    out.push(']');
    go(out, cur, t);
    out.push_str("[-");
    go(out, cur, src);
    out.push('+');
    go(out, cur, t);
    out.push(']');
}

fn gen_net(r: &mut Rng) -> String {
    let mut out = String::new();
    let n = 6 + r.below(14) as i32;
    let t = n;
    let mut cur = 0;
    for i in 0..n {
        go(&mut out, &mut cur, i);
        if !r.chance(4) {
            out.push(',');
        } else {
            rep(&mut out, '+', 1 + r.below(3));
        }
    }
    let looped = r.chance(2);
    let cnt = n + 6;
    if looped {
        go(&mut out, &mut cur, cnt);
        let step = *r.pick(&[1u64, 1, 1, 3, 5, 7]);
        // counter = step * k so that the loop terminates after k iterations
        rep(&mut out, '+', step * (1 + r.below(2)));
        out.push('[');
        rep(&mut out, '-', step);
    }
    let rounds = 1 + r.below(2);
    for _ in 0..rounds {
        for i in 0..n {
            let j = (i + 1 + r.below(2) as i32) % n;
            if j == i {
                continue;
            }
            match r.below(6) {
                0 | 1 | 2 => add_preserving(&mut out, &mut cur, i, j, t, r.chance(4)),
                3 => {
                    // i += j * k, preserving both
                    let k = (j + 1) % n;
                    if k == i {
                        continue;
                    }
                    go(&mut out, &mut cur, j);
                    out.push_str("[-");
                    go(&mut out, &mut cur, t);
                    out.push('+');
                    add_preserving(&mut out, &mut cur, i, k, t + 2, false);
                    go(&mut out, &mut cur, j);
                    out.push(']');
                    go(&mut out, &mut cur, t);
                    out.push_str("[-");
                    go(&mut out, &mut cur, j);
                    out.push('+');
                    go(&mut out, &mut cur, t);
                    out.push(']');
                }
                4 if r.chance(2) => {
                    // product or square into i, then fan the operand out as multiples
                    let k = if r.chance(2) { j } else { (j + 1) % n };
                    if k != i {
                        mul_acc(&mut out, &mut cur, i, j, k, t, t + 2, t + 4);
                        if r.chance(2) {
                            // j -> several cells with different multiples, j cleared
                            go(&mut out, &mut cur, j);
                            out.push_str("[-");
                            let fan = 2 + r.below(6) as i32;
                            for f in 0..fan {
                                let d = (j + 1 + f) % n;
                                if d != j {
                                    go(&mut out, &mut cur, d);
                                    rep(&mut out, '+', 1 + f as u64);
                                }
                            }
                            go(&mut out, &mut cur, j);
                            out.push(']');
                        }
                    }
                }
                4 => {
                    if r.chance(3) {
                        go(&mut out, &mut cur, i);
                        out.push('.');
                    } else if r.chance(3) {
                        go(&mut out, &mut cur, i);
                        out.push(',');
                    }
                }
                _ => {
                    // zero test on a derived value: if (i) { j += 1 } via temp copy
                    add_preserving(&mut out, &mut cur, t + 1, i, t, false);
                    go(&mut out, &mut cur, t + 1);
                    out.push_str("[[-]");
                    go(&mut out, &mut cur, j);
                    out.push('+');
                    go(&mut out, &mut cur, t + 1);
                    out.push(']');
                }
            }
        }
    }
    if looped {
        go(&mut out, &mut cur, cnt);
        out.push(']');
    }
    for i in 0..n {
        go(&mut out, &mut cur, i);
        out.push('.');
    }
    out
}

// ---------------------------------------------------------------- L
/// Loops whose trip count is (input + c) / step for an odd step: at 64 bit the
/// closed forms multiply by modular inverses, i.e. immediates beyond 32 bits.
fn gen_large(r: &mut Rng) -> String {
    let mut out = String::new();
    let n = 3 + r.below(10) as i32;
    let t = n;
    let cnt = n + 3;
    let mut cur = 0;
    for i in 0..n {
        go(&mut out, &mut cur, i);
        if !r.chance(4) {
            out.push(',');
        } else {
            rep(&mut out, '+', 1 + r.below(3));
        }
    }
    let loops = 1 + r.below(2);
    for _ in 0..loops {
        go(&mut out, &mut cur, cnt);
        out.push(',');
        rep(&mut out, '+', r.below(4));
        let step = *r.pick(&[3u64, 5, 7, 3]);
        out.push('[');
        rep(&mut out, '-', step);
        for _ in 0..1 + r.below(4) {
            let i = r.below(n as u64) as i32;
            let j = (i + 1 + r.below(n as u64 - 1) as i32) % n;
            match r.below(4) {
                0 => {
                    go(&mut out, &mut cur, i);
                    let c = if r.chance(3) { '-' } else { '+' };
                    rep(&mut out, c, 1 + r.below(3));
                }
                1 | 2 => add_preserving(&mut out, &mut cur, i, j, t, r.chance(4)),
                _ => {
                    go(&mut out, &mut cur, i);
                    out.push('.');
                }
            }
        }
        go(&mut out, &mut cur, cnt);
        out.push(']');
        for _ in 0..r.below(4) {
            let i = r.below(n as u64) as i32;
            let j = (i + 1 + r.below(n as u64 - 1) as i32) % n;
            if r.chance(3) {
                add_preserving(&mut out, &mut cur, t + 1, i, t, false);
                go(&mut out, &mut cur, t + 1);
                out.push_str("[[-]");
                go(&mut out, &mut cur, j);
                out.push('+');
                go(&mut out, &mut cur, t + 1);
                out.push(']');
            } else {
                add_preserving(&mut out, &mut cur, i, j, t, false);
            }
        }
    }
    for i in 0..n {
        go(&mut out, &mut cur, i);
        out.push('.');
    }
    out
}

// ---------------------------------------------------------------- W
/// Access windows: pointer-moving loops followed (or preceded) by reads, stores
/// and inputs at offsets further out than anything else in the block.
fn gen_window(r: &mut Rng) -> String {
    let mut out = String::new();
    let acc = |r: &mut Rng, out: &mut String| {
        let d = 1 + r.below(4);
        let (a, b) = if r.chance(2) { ('>', '<') } else { ('<', '>') };
        rep(out, a, d);
        match r.below(7) {
            0 => out.push(','),
            1 => out.push_str("[-]+"),
            2 => out.push('.'),
            3 => out.push_str("[-]"),
            4 => out.push_str("[->+<]"),
            5 => out.push_str("[-<+>]>+<"),
            _ => out.push('+'),
        }
        if !r.chance(4) {
            rep(out, b, d);
        }
    };
    if r.chance(2) {
        out.push_str(",>,<");
    } else {
        rep(&mut out, '+', 1 + r.below(3));
    }
    let blocks = 1 + r.below(3);
    for _ in 0..blocks {
        let looped = r.chance(2);
        if looped {
            // the block is entered or skipped depending on the data
            out.push_str(*r.pick(&["[", "+[", ",[", ">,<["]));
        }
        for _ in 0..r.below(3) {
            acc(r, &mut out);
        }
        // a pointer-moving loop
        match r.below(5) {
            0 => out.push_str("[>]"),
            1 => out.push_str("[<]"),
            2 => out.push_str("[>>]"),
            3 => out.push_str("[-<+>>]"),
            _ => out.push_str("[.>]"),
        }
        for _ in 0..1 + r.below(3) {
            acc(r, &mut out);
        }
        if looped {
            out.push_str(if r.chance(2) { "[-]]" } else { "<[-]]" });
        }
    }
    out.push_str(".>.<<.");
    out
}

// ---------------------------------------------------------------- G
/// Counted loops whose body updates accumulators by constants, by loop-constant
/// cells, by linearly changing cells and by geometrically changing cells: the
/// shapes for which the optimiser derives closed forms (loop motion).
fn gen_closed(r: &mut Rng) -> String {
    let mut out = String::new();
    let nv = 4 + r.below(3) as i32; // variables 0..nv, temporaries nv..nv+4, counter nv+5
    let (t0, t1, t2, t3) = (nv, nv + 1, nv + 2, nv + 3);
    let cnt = nv + 5;
    let mut cur = 0;
    for i in 0..nv {
        go(&mut out, &mut cur, i);
        if r.chance(4) {
            rep(&mut out, '+', 1 + r.below(3));
        } else {
            out.push(',');
        }
    }
    let nloops = 1 + r.below(2);
    for _ in 0..nloops {
        go(&mut out, &mut cur, cnt);
        if r.chance(3) {
            rep(&mut out, '+', 1 + r.below(5));
        } else {
            out.push(',');
        }
        out.push_str("[-");
        for _ in 0..1 + r.below(4) {
            let a = r.below(nv as u64) as i32;
            let b = (a + 1 + r.below(nv as u64 - 1) as i32) % nv;
            let c = r.below(nv as u64) as i32;
            match r.below(8) {
                0 => {
                    go(&mut out, &mut cur, a);
                    let ch = if r.chance(3) { '-' } else { '+' };
                    rep(&mut out, ch, 1 + r.below(3));
                }
                1 | 2 => add_preserving(&mut out, &mut cur, a, b, t0, r.chance(4)),
                3 | 4 => {
                    if a != b && a != c {
                        mul_acc(&mut out, &mut cur, a, b, c, t0, t1, t3);
                    }
                }
                5 | 6 => {
                    // a *= k via temporary
                    let k = 2 + r.below(3);
                    go(&mut out, &mut cur, a);
                    out.push_str("[-");
                    go(&mut out, &mut cur, t2);
                    rep(&mut out, '+', k);
                    go(&mut out, &mut cur, a);
                    out.push(']');
                    go(&mut out, &mut cur, t2);
                    out.push_str("[-");
                    go(&mut out, &mut cur, a);
                    out.push('+');
                    go(&mut out, &mut cur, t2);
                    out.push(']');
                }
                _ => {
                    go(&mut out, &mut cur, a);
                    out.push('.');
                }
            }
        }
        go(&mut out, &mut cur, cnt);
        out.push(']');
    }
    for i in 0..nv {
        go(&mut out, &mut cur, i);
        out.push('.');
    }
    out
}

// ---------------------------------------------------------------- I
/// Input requests in the middle of live computations: many values are pending
/// (held in temporaries) when a ',' is executed.
fn gen_io(r: &mut Rng) -> String {
    let mut out = String::new();
    let n = 3 + r.below(8) as i32;
    let mut cur = 0;
    for i in 0..n {
        go(&mut out, &mut cur, i);
        out.push(',');
        if i == 0 && r.chance(2) {
            out.push('.');
        }
    }
    for i in 0..n {
        // pending: cell i+n (+)= k * cell i
        match r.below(4) {
            0 => add_preserving(&mut out, &mut cur, i + n, i, 2 * n + 1, r.chance(4)),
            _ => {
                go(&mut out, &mut cur, i);
                out.push_str("[-");
                go(&mut out, &mut cur, i + n);
                rep(&mut out, '+', 1 + r.below(3));
                go(&mut out, &mut cur, i);
                out.push(']');
            }
        }
    }
    // second round of inputs and the printing of the moved values, both in a random order
    let mut order: Vec<i32> = (0..n).collect();
    for k in (1..order.len()).rev() {
        order.swap(k, r.below(k as u64 + 1) as usize);
    }
    let interleave = r.chance(3);
    for &i in &order {
        if !r.chance(8) {
            go(&mut out, &mut cur, i);
            out.push(if r.chance(8) { '.' } else { ',' });
            if interleave {
                // use the value moved out of this cell right after the cell was refilled
                go(&mut out, &mut cur, i + n);
                if !r.chance(4) {
                    out.push(if r.chance(4) { '-' } else { '+' });
                }
                out.push('.');
            }
        }
    }
    // the moved values are adjusted before they are printed, so they stay pending
    // (in temporaries) across the second round of input requests
    let mut order2: Vec<i32> = (n..2 * n).collect();
    for k in (1..order2.len()).rev() {
        order2.swap(k, r.below(k as u64 + 1) as usize);
    }
    for &i in &order2 {
        go(&mut out, &mut cur, i);
        if !r.chance(6) {
            out.push(if r.chance(4) { '-' } else { '+' });
        }
        out.push('.');
    }
    for i in 0..n {
        if r.chance(2) {
            go(&mut out, &mut cur, i);
            out.push('.');
        }
    }
    out
}

// ---------------------------------------------------------------- T
fn gen_roam(r: &mut Rng) -> String {
    let mut out = String::new();
    let k = 1 + r.below(3);
    for _ in 0..k {
        let d = if r.chance(2) { '>' } else { '<' };
        let b = if d == '>' { '<' } else { '>' };
        let n = *r.pick(&[1u64, 2, 3, 7, 30, 200, 700]);
        match r.below(6) {
            0 => {
                rep(&mut out, d, n);
                out.push_str("+.");
            }
            1 => {
                // mover: carries a counter m cells in direction d
                let m = 2 + r.below(20);
                rep(&mut out, '+', m);
                out.push_str("[[-");
                out.push(d);
                out.push('+');
                out.push(b);
                out.push(']');
                out.push(d);
                out.push_str("-]");
                out.push('.');
            }
            2 => {
                // lay down a run of non-zero cells, scan back over it
                let m = 1 + r.below(12);
                for _ in 0..m {
                    out.push(d);
                    out.push('+');
                }
                out.push('[');
                out.push(b);
                out.push(']');
                out.push(d);
                out.push('.');
            }
            3 => {
                for _ in 0..n.min(40) {
                    out.push(d);
                    out.push('+');
                    out.push('.');
                }
            }
            4 => {
                // mark here, go far, come back and read the mark (revisit after growth)
                rep(&mut out, '+', 1 + r.below(5));
                rep(&mut out, d, n);
                out.push_str("++.");
                rep(&mut out, b, n);
                out.push('.');
                rep(&mut out, b, n.min(300));
                out.push_str("+.");
                rep(&mut out, d, n.min(300));
                out.push('.');
            }
            _ => {
                // window straddling: a loop body touching cells on both sides while moving
                let m = 2 + r.below(10);
                rep(&mut out, '+', m);
                out.push_str("[-");
                rep(&mut out, d, 3);
                out.push('+');
                rep(&mut out, b, 5);
                out.push('+');
                rep(&mut out, d, 3);
                out.push_str("[-");
                out.push(d);
                out.push('+');
                out.push(b);
                out.push(']');
                out.push(d);
                out.push_str("]<.>.>.");
            }
        }
    }
    out.push('.');
    out
}

// ---------------------------------------------------------------- D
/// Loops that diverge for some start values only: the condition cell steps by an
/// even amount (so odd values never reach zero), by zero net, or is restored by
/// the body; the body is made of pieces the optimiser likes to hoist or fold.
fn gen_div_cond(r: &mut Rng) -> String {
    let mut out = String::new();
    let pieces: [&str; 12] = [">[-]+<", ">[-]<", ">+<", ">-<", ">++<", ".", ">.<", ">[-]++<", "<+>", ">>+<<",
        ">[->+<]<", ""];
    if r.chance(3) {
        rep(&mut out, '+', 1 + r.below(4));
        out.push('.');
        out.push_str("[-]");
    }
    if r.chance(4) {
        rep(&mut out, '+', 1 + r.below(7));
    } else {
        out.push(',');
        if r.chance(3) {
            rep(&mut out, '+', 1 + r.below(3));
        }
    }
    let nested = r.chance(4);
    if nested {
        out.push_str("[>+<");
    }
    out.push('[');
    let step = *r.pick(&[2u64, 2, 2, 4, 6, 0, 1, 3]);
    let first = r.chance(2);
    let c = if r.chance(5) { '+' } else { '-' };
    if first {
        rep(&mut out, c, step);
    }
    for _ in 0..r.below(3) {
        let pc: &str = *r.pick::<&str>(&pieces[..]);
        out.push_str(pc);
    }
    if r.chance(6) {
        out.push_str("+-");
    }
    if !first {
        rep(&mut out, c, step);
    }
    out.push(']');
    if nested {
        out.push_str("-]");
    }
    out.push_str(*r.pick(&[">.", ">.<.", ".", ">.>.", "<.>>."]));
    out
}

fn gen_div(r: &mut Rng) -> String {
    if r.chance(2) {
        return gen_div_cond(r);
    }
    let mut out = String::new();
    // optional terminating prologue with output
    if r.chance(2) {
        rep(&mut out, '+', 1 + r.below(5));
        out.push('.');
        if r.chance(2) {
            out.push_str("[-]");
        }
    }
    if r.chance(3) {
        out.push(',');
    }
    match r.below(12) {
        0 => out.push_str("+[]"),
        1 => out.push_str("+[>+<-+]"),
        2 => out.push_str("+[--]"), // even-step counter on an odd value
        3 => out.push_str("+[.]"),
        4 => out.push_str("+[.,]"),
        5 => out.push_str("+[>+.<]"),
        6 => out.push_str("-[[-]+]"),
        7 => {
            // becomes infinite only after k iterations
            rep(&mut out, '+', 2 + r.below(5));
            out.push_str("[-.[>+<-]>[<+>-]<]+[>.<]");
        }
        8 => out.push_str(",+[.[-]+]"),
        9 => out.push_str("+[[>]<]"),
        10 => out.push_str("+[>++[-]<]"),
        _ => {
            // nested: inner finite loop inside an infinite outer one
            out.push_str("+[>+++[-<.>]<]");
        }
    }
    // trailing code that must never run
    out.push_str(".+.");
    out
}

// ---------------------------------------------------------------- M
fn matching(code: &[u8], i: usize) -> usize {
    let mut d = 0;
    let mut j = i;
    loop {
        if code[j] == b'[' {
            d += 1
        } else if code[j] == b']' {
            d -= 1;
            if d == 0 {
                return j;
            }
        }
        j += 1;
    }
}

pub fn mutate(r: &mut Rng, seed: &str) -> String {
    let mut code: Vec<u8> = seed.bytes().filter(|c| b"+-<>.,[]".contains(c)).collect();
    if !crate::refint::balanced(&code) {
        code.retain(|c| *c != b'[' && *c != b']');
    }
    let k = 1 + r.below(3);
    for _ in 0..k {
        if code.is_empty() {
            code.push(b'+');
            continue;
        }
        let i = r.below(code.len() as u64) as usize;
        match r.below(7) {
            0 => {
                // insert a command
                code.insert(i, *r.pick(b"+-<>.,"));
            }
            1 => {
                // delete a command (not a bracket)
                if code[i] != b'[' && code[i] != b']' {
                    code.remove(i);
                }
            }
            2 => {
                // duplicate a command or a whole loop
                if code[i] == b'[' {
                    let j = matching(&code, i);
                    let lp: Vec<u8> = code[i..=j].to_vec();
                    let at = j + 1;
                    for (k, c) in lp.into_iter().enumerate() {
                        code.insert(at + k, c);
                    }
                } else if code[i] != b']' {
                    let c = code[i];
                    code.insert(i, c);
                }
            }
            3 => {
                // wrap a range into a loop that clears its condition afterwards
                if code[i] != b']' {
                    let j = if code[i] == b'[' { matching(&code, i) } else { i };
                    for (k, c) in b"[-]]".iter().enumerate() {
                        code.insert(j + 1 + k, *c);
                    }
                    code.insert(i, b'[');
                }
            }
            4 => {
                // remove a pair of brackets
                if code[i] == b'[' {
                    let j = matching(&code, i);
                    code.remove(j);
                    code.remove(i);
                }
            }
            5 => {
                // insert a balanced idiom
                let idiom: &[u8] = *r.pick(&[&b"[-]"[..], b"[->+<]", b"[-<+>]", b"[>]", b"[<]", b"[-]+", b"[->++<]", b"[->+>+<<]"]);
                for (k, c) in idiom.iter().enumerate() {
                    code.insert(i + k, *c);
                }
            }
            _ => {
                // flip a command
                let c = code[i];
                code[i] = match c {
                    b'+' => b'-',
                    b'-' => b'+',
                    b'<' => b'>',
                    b'>' => b'<',
                    b'.' => b',',
                    b',' => b'.',
                    x => x,
                };
            }
        }
    }
    String::from_utf8(code).unwrap()
}

pub fn gen_input(r: &mut Rng) -> Vec<u8> {
    let n = r.below(8);
    (0..n).map(|_| *r.pick(&[0u8, 1, 2, 3, 5, 7, 128, 255, 65, 10])).collect()
}

pub fn main_gen(args: &[String]) {
    let pop = args.get(0).map(|s| s.as_str()).unwrap_or("rnd");
    let seed: u64 = args.get(1).and_then(|s| s.parse().ok()).unwrap_or(1);
    let count: usize = args.get(2).and_then(|s| s.parse().ok()).unwrap_or(100);
    let mut r = Rng::new(seed ^ (pop.bytes().fold(0u64, |a, b| a.wrapping_mul(131).wrapping_add(b as u64)) << 20));
    let seeds: Vec<String> = if pop == "M" {
        use std::io::BufRead;
        std::io::stdin().lock().lines().map(|l| l.unwrap()).filter(|l| !l.is_empty()).collect()
    } else {
        vec![]
    };
    for _ in 0..count {
        let prog = match pop {
            "S" => gen_s(&mut r),
            "N" => gen_net(&mut r),
            "T" => gen_roam(&mut r),
            "L" => gen_large(&mut r),
            "I" => gen_io(&mut r),
            "G" => gen_closed(&mut r),
            "W" => gen_window(&mut r),
            "D" => gen_div(&mut r),
            "M" => {
                let s = r.pick(&seeds).clone();
                mutate(&mut r, &s)
            }
            _ => gen_rnd(&mut r),
        };
        let input = gen_input(&mut r);
        println!("{}", json!({"pop": pop, "prog": prog, "input": input}));
    }
}
