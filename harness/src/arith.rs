//! Calls the helpers of `CellType` on the real implementations and records
//! (operation, operands, result) for ArithTrace.tla (C14).

use hpbf::CellType;
use serde_json::{json, Value};

use crate::dump::limbs;

fn l16(v: i16) -> Value {
    let x = v as u16;
    json!([x & 0xff, x >> 8])
}
fn l64(x: u64) -> Value {
    Value::Array((0..8).map(|i| json!((x >> (8 * i)) & 0xff)).collect())
}

fn run<C: CellType>(calls: &[Value]) -> Vec<Value> {
    let mut out = vec![];
    let p = |v: &Value| -> u64 { v.as_str().and_then(|s| s.parse::<u64>().ok()).unwrap_or(0) };
    for c in calls {
        let op = c[0].as_str().unwrap_or("");
        let (au, bu) = (p(&c[1]), p(&c[2]));
        let k = c[3].as_u64().unwrap_or(0) as u32;
        let (a, b) = (C::from_u64(au), C::from_u64(bu));
        let zero = limbs(C::ZERO);
        let mut ev = json!({"op": op, "w": C::BITS, "a": limbs(a), "b": limbs(b), "k": k, "r": zero.clone(),
                            "x": zero.clone(), "none": 0});
        match op {
            "div" => match a.wrapping_div(b) {
                Some(r) => ev["r"] = limbs(r),
                None => ev["none"] = json!(1),
            },
            "inv" => match a.wrapping_inv() {
                Some(r) => ev["r"] = limbs(r),
                None => ev["none"] = json!(1),
            },
            "pow2" => {
                ev["r"] = limbs(a.wrapping_pow(b.wrapping_shr(k)));
                ev["x"] = limbs(a.wrapping_pow(b.wrapping_shr(k + 1)));
            }
            "shr" => ev["r"] = limbs(a.wrapping_shr(k)),
            "shl" => ev["r"] = limbs(a.wrapping_shl(k)),
            "tz" => ev["k"] = json!(a.trailing_zeros()),
            "and" => ev["r"] = limbs(a.bitand(b)),
            "add" => ev["r"] = limbs(a.wrapping_add(b)),
            "mul" => ev["r"] = limbs(a.wrapping_mul(b)),
            "neg" => ev["r"] = limbs(a.wrapping_neg()),
            "zext" => ev["r"] = l64(a.into_u64()),
            "sext" => ev["r"] = l64(a.into_i64() as u64),
            "trunc" => {
                ev["a"] = l64(au);
                ev["r"] = limbs(C::from_u64(au));
            }
            "fromu8" => {
                ev["k"] = json!(au as u8);
                ev["r"] = limbs(C::from_u8(au as u8));
            }
            "intou8" => ev["k"] = json!(a.into_u8()),
            "fromi16" => {
                let v = au as u16 as i16;
                ev["a"] = l16(v);
                ev["r"] = limbs(C::from_i16(v));
            }
            "tryi16" => match a.try_into_i16() {
                Some(r) => ev["r"] = l16(r),
                None => ev["none"] = json!(1),
            },
            _ => {}
        }
        out.push(ev);
    }
    out
}

/// `{"op":"arith","id","w","calls":[[op, "a", "b", k], ...]}`
pub fn op_arith(req: &Value) {
    let empty = vec![];
    let calls = req["calls"].as_array().unwrap_or(&empty);
    let r = std::panic::catch_unwind(|| match req["w"].as_u64().unwrap_or(8) {
        8 => run::<u8>(calls),
        16 => run::<u16>(calls),
        32 => run::<u32>(calls),
        _ => run::<u64>(calls),
    });
    match r {
        Ok(events) => println!("{}", json!({"id": req["id"], "events": events, "end": "ok"})),
        Err(_) => println!("{}", json!({"id": req["id"], "events": [], "end": "panic"})),
    }
}
