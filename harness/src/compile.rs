//! Observations for C13: digests of everything a compilation prints, and of
//! repeated executions of the same executor.

use std::panic::{catch_unwind, AssertUnwindSafe};

use hpbf::{
    bc,
    exec::{BaseJitCompiler, BcInterpreter, Executor, InplaceInterpreter, IrInterpreter},
    ir, CellType,
};
use serde_json::{json, Value};

use crate::run;

pub fn fnv(data: &[u8]) -> String {
    let mut h: u64 = 0xcbf29ce484222325;
    for &b in data {
        h ^= b as u64;
        h = h.wrapping_mul(0x100000001b3);
    }
    format!("{h:016x}:{}", data.len())
}

fn observe<C: CellType>(req: &Value) -> Value {
    let code = req["prog"].as_str().unwrap_or("");
    let level = req["level"].as_u64().unwrap_or(0) as u32;
    let input: Vec<u8> = req["input"]
        .as_array()
        .map(|a| a.iter().map(|x| x.as_u64().unwrap_or(0) as u8).collect())
        .unwrap_or_default();
    let mut arts = vec![];
    let mut push = |kind: &str, r: std::thread::Result<Option<Vec<u8>>>| match r {
        Ok(Some(d)) => arts.push(json!([kind, "artifact", fnv(&d)])),
        Ok(None) => arts.push(json!([kind, "artifact", "parse-error"])),
        Err(_) => arts.push(json!([kind, "failed", "panic"])),
    };
    push("ir", catch_unwind(AssertUnwindSafe(|| {
        ir::Program::<C>::parse(code).ok().map(|p| format!("{:?}", p.optimize(level)).into_bytes())
    })));
    push("bc", catch_unwind(AssertUnwindSafe(|| {
        ir::Program::<C>::parse(code)
            .ok()
            .map(|p| format!("{:?}", bc::CodeGen::translate(&p.optimize(level), 2, true)).into_bytes())
    })));
    push("jitbc", catch_unwind(AssertUnwindSafe(|| {
        ir::Program::<C>::parse(code)
            .ok()
            .map(|p| format!("{:?}", bc::CodeGen::translate(&p.optimize(level), 11, false)).into_bytes())
    })));
    for (limit, safe) in [(false, true), (true, true), (false, false)] {
        push(
            &format!("mc-{}-{}", limit as u8, safe as u8),
            catch_unwind(AssertUnwindSafe(|| BaseJitCompiler::<C>::create(code, level).ok().map(|j| j.print_mc(limit, safe)))),
        );
    }
    for b in ["irint", "bcint", "jit"] {
        let k = format!("create-{b}");
        let r = catch_unwind(AssertUnwindSafe(|| match b {
            "irint" => IrInterpreter::<C>::create(code, level).is_ok(),
            "bcint" => BcInterpreter::<C>::create(code, level).is_ok(),
            _ => BaseJitCompiler::<C>::create(code, level).is_ok(),
        }));
        match r {
            Ok(ok) => arts.push(json!([k, "artifact", if ok { "ok" } else { "parse-error" }])),
            Err(_) => arts.push(json!([k, "failed", "panic"])),
        }
    }
    let _ = InplaceInterpreter::<C>::create(code, level);
    // repeated executions of one executor on fresh contexts (only for halting programs)
    let mut execs = vec![];
    let execute = req["execute"].as_u64().unwrap_or(0);
    if execute >= 1 {
        // (execute = 2: programs only the optimising pipelines can finish - no in-place run)
        for b in ["inplace", "irint", "bcint", "jit"].into_iter().skip(if execute == 2 { 1 } else { 0 }) {
            let cfg = run::RunCfg::from_json(&json!({"backend": b, "level": level, "mode": "exec"}));
            let reps = run::run_repeated(code, C::BITS, &cfg, &input, 3);
            for (n, (log, ret)) in reps.into_iter().enumerate() {
                let mut bytes = ret.into_bytes();
                for e in log {
                    bytes.extend_from_slice(format!("{e:?}").as_bytes());
                }
                execs.push(json!([b, n + 1, fnv(&bytes)]));
            }
            // the same executor through different entry points in turn: what one call leaves behind in the
            // executor (cached code, budgets) must not reach the next.  Labels: <backend>~<entry>~<sequence>
            if execute == 1 {
                let ex = json!({"backend": b, "level": level, "mode": "exec"});
                let l3 = json!({"backend": b, "level": level, "mode": "limited", "budget": 3});
                let lb = json!({"backend": b, "level": level, "mode": "limited", "budget": 4611686018427387904u64});
                for (si, seq) in [vec![&l3, &ex, &lb, &l3, &ex], vec![&ex, &l3, &lb, &ex]].iter().enumerate() {
                    let cfgs: Vec<run::RunCfg> = seq.iter().map(|j| run::RunCfg::from_json(j)).collect();
                    let reps = run::run_sequence(code, C::BITS, &cfgs, &input);
                    for (n, (log, ret)) in reps.into_iter().enumerate() {
                        let mut bytes = ret.into_bytes();
                        for e in log {
                            bytes.extend_from_slice(format!("{e:?}").as_bytes());
                        }
                        let entry = match seq.get(n).map(|j| j["budget"].as_u64()) {
                            Some(Some(3)) => "lim3",
                            Some(Some(_)) => "limbig",
                            _ => "exec",
                        };
                        execs.push(json!([format!("{b}~{entry}~{si}"), n + 1, fnv(&bytes)]));
                    }
                }
            }
        }
    }
    json!({"artifacts": arts, "executions": execs})
}

/// `{"op":"compile","id","prog","w","level","input","execute":0|1}`
pub fn op_compile(req: &Value) {
    let mut v = match req["w"].as_u64().unwrap_or(8) {
        8 => observe::<u8>(req),
        16 => observe::<u16>(req),
        32 => observe::<u32>(req),
        _ => observe::<u64>(req),
    };
    v["id"] = req["id"].clone();
    v["pid"] = json!(std::process::id());
    println!("{v}");
}
