//! Dumps of the artefacts the executors actually hold (hooks H1): the bytecode of
//! the bytecode interpreter / baseline JIT and the optimised IR, as JSON that the
//! TLA+ modules BCStatic / BC / IR take as their constant program.

use hpbf::{
    bc::{self, Instr, Loc},
    exec::{BaseJitCompiler, BcInterpreter, Executor, IrInterpreter},
    ir, CellType,
};
use serde_json::{json, Value};

/// little-endian 8-bit limbs of a cell value (TLC integers are 32 bit)
pub fn limbs<C: CellType>(v: C) -> Value {
    let x = v.into_u64();
    let n = if C::BITS <= 8 { 1 } else { C::BITS / 8 };
    Value::Array((0..n).map(|i| json!((x >> (8 * i)) & 0xff)).collect())
}

fn loc<C: CellType>(l: &Loc<C>) -> Value {
    match l {
        Loc::Mem(o) => json!(["m", o]),
        Loc::MemZero(o) => json!(["z", o]),
        Loc::Tmp(t) => json!(["t", t]),
        Loc::Imm(c) => json!(["i", limbs(*c), format!("{}", c.into_u64())]),
    }
}

pub fn bc_json<C: CellType>(p: &bc::Program<C>) -> Value {
    let insts: Vec<Value> = p
        .insts
        .iter()
        .map(|i| match i {
            Instr::Noop => json!(["noop"]),
            Instr::Scan(c, s) => json!(["scan", c, s]),
            Instr::Mov(s) => json!(["mov", s]),
            Instr::Inp(d) => json!(["inp", d]),
            Instr::Out(s) => json!(["out", s]),
            Instr::BrZ(c, o) => json!(["brz", c, o]),
            Instr::BrNZ(c, o) => json!(["brnz", c, o]),
            Instr::Add(d, a, b) => json!(["add", loc(d), loc(a), loc(b)]),
            Instr::Sub(d, a, b) => json!(["sub", loc(d), loc(a), loc(b)]),
            Instr::Mul(d, a, b) => json!(["mul", loc(d), loc(a), loc(b)]),
            Instr::Copy(d, a) => json!(["copy", loc(d), loc(a)]),
        })
        .collect();
    json!({"temps": p.temps, "min": p.min_accessed, "max": p.max_accessed, "live": p.live, "insts": insts,
           "text": format!("{p:?}")})
}

fn dump_bc<C: CellType>(req: &Value) -> Value {
    let code = req["prog"].as_str().unwrap_or("");
    let level = req["level"].as_u64().unwrap_or(0) as u32;
    match req["backend"].as_str().unwrap_or("bcint") {
        "jit" => match BaseJitCompiler::<C>::create(code, level) {
            Ok(x) => bc_json(x.verif_bytecode()),
            Err(e) => json!({"error": format!("{:?}@{}", e.kind, e.position)}),
        },
        _ => match BcInterpreter::<C>::create(code, level) {
            Ok(x) => bc_json(x.verif_bytecode()),
            Err(e) => json!({"error": format!("{:?}@{}", e.kind, e.position)}),
        },
    }
}

/// `{"op":"dumpbc","prog","w","level","backend"}`
pub fn op_dumpbc(req: &Value) {
    let mut v = match req["w"].as_u64().unwrap_or(8) {
        8 => dump_bc::<u8>(req),
        16 => dump_bc::<u16>(req),
        32 => dump_bc::<u32>(req),
        _ => dump_bc::<u64>(req),
    };
    v["id"] = req["id"].clone();
    println!("{v}");
}

// ---------------------------------------------------------------- IR
/// Expression trees are obtained through the public `Expr::codegen` visitor.
struct TreeGen;
impl<C: CellType> ir::CodeGen<C> for TreeGen {
    type Output = Value;
    type Error = ();
    fn imm(&mut self, imm: C) -> Result<Value, ()> {
        Ok(json!(["i", limbs(imm)]))
    }
    fn mem(&mut self, var: isize) -> Result<Value, ()> {
        Ok(json!(["m", var]))
    }
    fn add(&mut self, a: Value, b: Value) -> Result<Value, ()> {
        Ok(json!(["add", a, b]))
    }
    fn sub(&mut self, a: Value, b: Value) -> Result<Value, ()> {
        Ok(json!(["sub", a, b]))
    }
    fn mul(&mut self, a: Value, b: Value) -> Result<Value, ()> {
        Ok(json!(["mul", a, b]))
    }
}

pub fn block_json<C: CellType>(b: &ir::Block<C>) -> Value {
    let insts: Vec<Value> = b
        .insts
        .iter()
        .map(|i| match i {
            ir::Instr::Output { src } => json!(["out", src]),
            ir::Instr::Input { dst } => json!(["inp", dst]),
            ir::Instr::Calc { calcs } => {
                let cs: Vec<Value> = calcs
                    .iter()
                    .map(|(var, e)| {
                        let tree = e.codegen(&mut TreeGen, |_| 0).unwrap_or(json!(["i", limbs(C::ZERO)]));
                        json!([var, tree])
                    })
                    .collect();
                json!(["calc", cs])
            }
            ir::Instr::Loop { cond, block, once } => json!(["loop", cond, block_json(block), *once as u8]),
            ir::Instr::If { cond, block } => json!(["if", cond, block_json(block)]),
        })
        .collect();
    json!({"shift": b.shift, "insts": insts})
}

fn dump_ir<C: CellType>(req: &Value) -> Value {
    let code = req["prog"].as_str().unwrap_or("");
    let level = req["level"].as_u64().unwrap_or(0) as u32;
    match IrInterpreter::<C>::create(code, level) {
        Ok(x) => json!({"ir": block_json(x.verif_program()), "text": format!("{:?}", x.verif_program())}),
        Err(e) => json!({"error": format!("{:?}@{}", e.kind, e.position)}),
    }
}

/// `{"op":"dumpir","prog","w","level"}`
pub fn op_dumpir(req: &Value) {
    let mut v = match req["w"].as_u64().unwrap_or(8) {
        8 => dump_ir::<u8>(req),
        16 => dump_ir::<u16>(req),
        32 => dump_ir::<u32>(req),
        _ => dump_ir::<u64>(req),
    };
    v["id"] = req["id"].clone();
    println!("{v}");
}

// ---------------------------------------------------------------- renderings (C16, C13)
fn render<C: CellType>(req: &Value) -> Value {
    let code = req["prog"].as_str().unwrap_or("");
    let level = req["level"].as_u64().unwrap_or(0) as u32;
    let prog = match ir::Program::<C>::parse(code) {
        Ok(p) => p.optimize(level),
        Err(e) => return json!({"error": format!("{:?}@{}", e.kind, e.position)}),
    };
    let text = match req["kind"].as_str().unwrap_or("ir") {
        "ir" => format!("{prog:?}"),
        "bc" => format!("{:?}", bc::CodeGen::translate(&prog, 2, true)),
        "jitbc" => format!("{:?}", bc::CodeGen::translate(&prog, 12, false)),
        _ => String::new(),
    };
    json!({"text": text})
}

/// `{"op":"render","kind":"ir"|"bc"|"jitbc","prog","w","level"}`: what the library prints
pub fn op_render(req: &Value) {
    let t0 = std::time::Instant::now();
    let mut v = match req["w"].as_u64().unwrap_or(8) {
        8 => render::<u8>(req),
        16 => render::<u16>(req),
        32 => render::<u32>(req),
        _ => render::<u64>(req),
    };
    v["id"] = req["id"].clone();
    v["ms"] = serde_json::json!(t0.elapsed().as_millis() as u64);
    println!("{v}");
}
