//! Replays an operation history on the real `SmallVec<T, N>` (hook H2) and
//! records slice views, results, created and dropped identities (C18).

use std::{cell::RefCell, cmp::Ordering, collections::BTreeMap};

use hpbf::verif::{SmallVec, SmallVecIntoIter};
use serde_json::{json, Value};

thread_local! {
    static DROPS: RefCell<Vec<i64>> = RefCell::new(vec![]);
    static NEW: RefCell<Vec<i64>> = RefCell::new(vec![]);
    static NEXT: RefCell<i64> = RefCell::new(1);
}

fn fresh() -> i64 {
    let id = NEXT.with(|n| {
        let mut n = n.borrow_mut();
        let v = *n;
        *n += 1;
        v
    });
    NEW.with(|v| v.borrow_mut().push(id));
    id
}

trait Elem: Sized + Clone {
    fn make(val: i64) -> Self;
    fn id(&self) -> i64;
    fn val(&self) -> i64;
    fn set_val(&mut self, v: i64);
}

/// element with a destructor: every drop is written to the ledger
struct Tracked {
    id: i64,
    val: i64,
}
impl Drop for Tracked {
    fn drop(&mut self) {
        DROPS.with(|d| d.borrow_mut().push(self.id));
    }
}
impl Clone for Tracked {
    fn clone(&self) -> Self {
        Tracked { id: fresh(), val: self.val }
    }
}
impl Elem for Tracked {
    fn make(val: i64) -> Self {
        Tracked { id: fresh(), val }
    }
    fn id(&self) -> i64 {
        self.id
    }
    fn val(&self) -> i64 {
        self.val
    }
    fn set_val(&mut self, v: i64) {
        self.val = v
    }
}

/// element without a destructor
struct Plain {
    id: i64,
    val: i64,
}
impl Clone for Plain {
    fn clone(&self) -> Self {
        Plain { id: fresh(), val: self.val }
    }
}
impl Elem for Plain {
    fn make(val: i64) -> Self {
        Plain { id: fresh(), val }
    }
    fn id(&self) -> i64 {
        self.id
    }
    fn val(&self) -> i64 {
        self.val
    }
    fn set_val(&mut self, v: i64) {
        self.val = v
    }
}

struct ByVal<E: Elem>(E);
impl<E: Elem> Clone for ByVal<E> {
    fn clone(&self) -> Self {
        ByVal(self.0.clone())
    }
}
impl<E: Elem> PartialEq for ByVal<E> {
    fn eq(&self, o: &Self) -> bool {
        self.0.val() == o.0.val()
    }
}
impl<E: Elem> Eq for ByVal<E> {}
impl<E: Elem> PartialOrd for ByVal<E> {
    fn partial_cmp(&self, o: &Self) -> Option<Ordering> {
        Some(self.cmp(o))
    }
}
impl<E: Elem> Ord for ByVal<E> {
    fn cmp(&self, o: &Self) -> Ordering {
        self.0.val().cmp(&o.0.val())
    }
}

fn ints(v: &Value) -> Vec<i64> {
    v.as_array().map(|a| a.iter().map(|x| x.as_i64().unwrap_or(0)).collect()).unwrap_or_default()
}

fn replay<E: Elem, const N: usize>(req: &Value) -> Value {
    let empty = vec![];
    let calls = req["calls"].as_array().unwrap_or(&empty);
    let mut vecs: BTreeMap<i64, SmallVec<ByVal<E>, N>> = BTreeMap::new();
    let mut iters: BTreeMap<i64, SmallVecIntoIter<ByVal<E>, N>> = BTreeMap::new();
    let mut events = vec![];
    for call in calls {
        DROPS.with(|d| d.borrow_mut().clear());
        NEW.with(|d| d.borrow_mut().clear());
        let op = call["op"].as_str().unwrap_or("");
        let a = call["a"].as_i64().unwrap_or(0);
        let b = call["b"].as_i64().unwrap_or(0);
        let vals = ints(&call["vals"]);
        let mut ret: Vec<i64> = vec![];
        match op {
            "new" => {
                vecs.insert(a, SmallVec::new());
            }
            "withcap" => {
                vecs.insert(a, SmallVec::with_capacity(b as usize));
            }
            "push" => vecs.get_mut(&a).unwrap().push(ByVal(E::make(vals[0]))),
            "extend" => {
                let items: Vec<ByVal<E>> = vals.iter().map(|&v| ByVal(E::make(v))).collect();
                vecs.get_mut(&a).unwrap().extend(items.into_iter());
            }
            "clear" => vecs.get_mut(&a).unwrap().clear(),
            "retain" => vecs.get_mut(&a).unwrap().retain(|x| vals.contains(&x.0.val())),
            "retainmut" => vecs.get_mut(&a).unwrap().retain_mut(|x| {
                let nv = (x.0.val() + b) % 4;
                x.0.set_val(nv);
                vals.contains(&nv)
            }),
            "dedup" => vecs.get_mut(&a).unwrap().dedup(),
            "sort" => vecs.get_mut(&a).unwrap().sort(),
            "clone" => {
                let c = vecs.get(&a).unwrap().clone();
                vecs.insert(b, c);
            }
            "eq" => ret.push((vecs.get(&a).unwrap() == vecs.get(&b).unwrap()) as i64),
            "cmp" => ret.push(match vecs.get(&a).unwrap().cmp(vecs.get(&b).unwrap()) {
                Ordering::Less => -1,
                Ordering::Equal => 0,
                Ordering::Greater => 1,
            }),
            "iter" => {
                for x in vecs.get(&a).unwrap() {
                    ret.push(x.0.val());
                }
            }
            "index" => ret.push(vecs.get(&a).unwrap()[b as usize].0.val()),
            "intoiter" => {
                let v = vecs.remove(&a).unwrap();
                iters.insert(b, v.into_iter());
            }
            "next" => {
                if let Some(x) = iters.get_mut(&a).unwrap().next() {
                    ret.push(x.0.id());
                    ret.push(x.0.val());
                    // the element handed out is ours now; dropping it here is part of this call
                }
            }
            "dropiter" => {
                iters.remove(&a);
            }
            "drop" => {
                vecs.remove(&a);
            }
            _ => {}
        }
        let views: Vec<Value> = vecs
            .iter()
            .map(|(k, v)| json!([k, v.as_slice().iter().map(|x| json!([x.0.id(), x.0.val()])).collect::<Vec<_>>()]))
            .collect();
        let dropped: Vec<i64> = DROPS.with(|d| d.borrow().clone());
        let newids: Vec<i64> = NEW.with(|d| d.borrow().clone());
        events.push(json!({"op": op, "a": a, "b": b, "vals": vals, "ret": ret, "newids": newids,
                           "views": views, "dropped": dropped}));
    }
    json!({"id": req["id"], "events": events, "end": "ok"})
}

/// `{"op":"sv","id","n":1|2,"elem":"tracked"|"plain","calls":[{"op","a","b","vals"}]}`
pub fn op_sv(req: &Value) {
    NEXT.with(|n| *n.borrow_mut() = 1);
    let n = req["n"].as_u64().unwrap_or(1);
    let tracked = req["elem"].as_str().unwrap_or("tracked") == "tracked";
    let r = std::panic::catch_unwind(|| match (n, tracked) {
        (1, true) => replay::<Tracked, 1>(req),
        (2, true) => replay::<Tracked, 2>(req),
        (1, false) => replay::<Plain, 1>(req),
        _ => replay::<Plain, 2>(req),
    });
    match r {
        Ok(v) => println!("{v}"),
        Err(_) => println!("{}", json!({"id": req["id"], "events": [], "end": "panic"})),
    }
}
