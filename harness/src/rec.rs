//! Recording (and fault injecting) `Read` / `Write` objects.  Both sides append to
//! one shared log, so that the *interleaving* of input requests and output bytes
//! is observed, which is what the properties talk about.

use std::{
    cell::RefCell,
    io::{self, Read, Write},
    rc::Rc,
};

use serde_json::{json, Value};

/// Safety net: after this many events the objects refuse everything.
pub const EVENT_CAP: usize = 6000;

#[derive(Clone, Copy, PartialEq, Eq, Debug, Hash)]
pub enum Ev {
    /// input request answered with a byte (or -1 at end of input)
    In(i32),
    /// output byte accepted
    Out(u8),
    /// output byte refused (injected fault)
    OutFail(u8),
    /// input request answered with an error (injected fault)
    InFail,
}

impl Ev {
    pub fn to_json(self) -> Value {
        match self {
            Ev::In(b) => json!(["in", b]),
            Ev::Out(b) => json!(["out", b]),
            Ev::OutFail(b) => json!(["outfail", b]),
            Ev::InFail => json!(["infail", 0]),
        }
    }
}

#[derive(Default)]
pub struct Recorder {
    pub log: Vec<Ev>,
    pub out_n: usize,
    pub in_n: usize,
    /// an injected fault has been delivered
    pub fault: bool,
    /// the event cap was hit
    pub capped: bool,
    /// print every event as soon as it happens (used when the run may be killed)
    pub stream: Option<(String, usize)>,
}

impl Recorder {
    fn push(&mut self, ev: Ev) {
        if let Some((id, run)) = &self.stream {
            println!("{}", json!({"id": id, "run": run, "ev": ev.to_json()}));
            let _ = io::stdout().flush();
        }
        self.log.push(ev);
    }
}

pub type Shared = Rc<RefCell<Recorder>>;

/// Error kind of the k-th injected failure (write_all / read_exact style wrappers treat some specially).
pub fn fault_kind(k: usize) -> io::ErrorKind {
    const KINDS: [io::ErrorKind; 6] = [
        io::ErrorKind::Other,
        io::ErrorKind::Interrupted,
        io::ErrorKind::UnexpectedEof,
        io::ErrorKind::WouldBlock,
        io::ErrorKind::BrokenPipe,
        io::ErrorKind::WriteZero,
    ];
    KINDS[k % KINDS.len()]
}

pub struct PlanReader {
    pub data: Vec<u8>,
    pub pos: usize,
    /// index (0-based) of the request that fails, if any
    pub fail_at: Option<usize>,
    pub rec: Shared,
}

impl Read for PlanReader {
    fn read(&mut self, buf: &mut [u8]) -> io::Result<usize> {
        let mut rec = self.rec.borrow_mut();
        let n = rec.in_n;
        rec.in_n += 1;
        if rec.log.len() >= EVENT_CAP {
            rec.capped = true;
            return Err(io::Error::new(io::ErrorKind::Other, "event cap"));
        }
        if self.fail_at == Some(n) {
            rec.fault = true;
            rec.push(Ev::InFail);
            // the property says "returns an error": every kind counts, also the ones that wrappers such
            // as read_exact retry (Interrupted) or translate (UnexpectedEof); the kind rotates with the
            // position of the failing request and the length of the input
            return Err(io::Error::new(fault_kind(n + self.data.len()), "injected input failure"));
        }
        if buf.is_empty() {
            return Ok(0);
        }
        if self.pos < self.data.len() {
            buf[0] = self.data[self.pos];
            self.pos += 1;
            rec.push(Ev::In(buf[0] as i32));
            Ok(1)
        } else {
            rec.push(Ev::In(-1));
            Ok(0)
        }
    }
}

pub struct PlanWriter {
    /// number of successful outputs after which the next one is refused
    pub fail_at: Option<usize>,
    /// refuse with `Err` instead of `Ok(0)`
    pub fail_with_err: bool,
    pub rec: Shared,
}

impl Write for PlanWriter {
    fn write(&mut self, buf: &[u8]) -> io::Result<usize> {
        let mut rec = self.rec.borrow_mut();
        if buf.is_empty() {
            return Ok(0);
        }
        if rec.log.len() >= EVENT_CAP {
            rec.capped = true;
            return Ok(0);
        }
        if self.fail_at == Some(rec.out_n) {
            rec.fault = true;
            rec.push(Ev::OutFail(buf[0]));
            return if self.fail_with_err {
                Err(io::Error::new(fault_kind(rec.out_n + 1), "injected output failure"))
            } else {
                Ok(0)
            };
        }
        rec.out_n += 1;
        rec.push(Ev::Out(buf[0]));
        Ok(1)
    }

    fn flush(&mut self) -> io::Result<()> {
        Ok(())
    }
}
